"""C05 -- text model: each glyph gets the position, advance and state PDF assigns.

Shape A (explicit-state search on the real interpreter).  A *state* is the pair
(canonical real interpreter state, reference-model state) reached by an operator
history; a *transition* appends one operator instance, re-executes the whole
history with the real ``PDFPageInterpreter.process_page`` and compares every glyph
reported so far with the reference model (ISO 32000-1 9.3-9.4, 8.4.2, 8.10.1 in
``fractions.Fraction``).  In every state at the depth bound each show operator is
fired once more (frontier probes).  Every history up to ``split_depth`` is also cut
into a Contents array at every token boundary (2 and 3 streams) and a subset is run
through a complete PDF file written by ``mc.pdfgen``.
"""
from __future__ import annotations

import itertools
from fractions import Fraction as Fr
from typing import Any, Dict, List, Optional, Tuple

from mc import pdfgen as G
from mc.core import h64
from mc.refs import gfx

ID = "C05"
LEVEL = "model_checking"

UNSET = "unset"

# ------------------------------------------------------------------ resources
# three width tables; descents dyadic so that glyph boxes are exact in binary floating point
FONTS = {
    "A": {"name": "VerifA", "w": {32: 250, 65: 500, 66: 750, 67: 1000}, "descent": -250},
    "B": {"name": "VerifB", "w": {32: 500, 65: 1000, 66: 250, 67: 625}, "descent": -125},
    "C": {"name": "VerifC", "w": {32: 125, 65: 375, 66: 500, 67: 875}, "descent": -500},
    # two distinct font dictionaries sharing one BaseFont/FontName: other widths, other encoding (family "samename")
    "S1": {"name": "VerifS", "w": {32: 250, 65: 500, 66: 750, 67: 1000}, "descent": -250},
    "S2": {"name": "VerifS", "w": {32: 500, 65: 1000, 66: 250, 67: 625}, "descent": -250,
           "enc": {65: "B", 66: "C", 67: "A"}},
}
WIDTH_SETS = [
    {"A": "A", "B": "B", "C": "C"},
    {"A": "C", "B": "A", "C": "B"},  # the same resource names bound to other width tables
]

N = lambda v: gfx.num(v)  # noqa

# form XObjects, written as event lists so that the model interprets what the file contains
FORMS: Dict[str, Dict[str, Any]] = {
    # self-contained: sets every text parameter it uses; own Matrix, own Resources (F1 is *another* font
    # than the page's F1), inner cm, an unbalanced q, leaves Tc/Tf/colour changed
    "FmA": {
        "matrix": (2, 0, 0, 2, 5, 7),
        "fonts": {"F1": "B", "F3": "C"},
        "xobjects": [],
        "events": [
            ("q",), ("cm", 1, 0, 0, 1, 3, 4), ("BT",), ("Tf", "/F1", 8), ("Tc", 2), ("Tw", 0), ("Tz", 100), ("Ts", 0),
            ("TL", 20), ("g", Fr(1, 4)), ("Tj", b"AB"), ("ET",),
        ],
    },
    # inheriting: shows text with whatever the caller's graphics state holds (ISO 8.10.1)
    "FmI": {
        "matrix": (1, 0, 0, 1, 0, 32),
        "fonts": {"F1": "C"},
        "xobjects": [],
        "events": [("BT",), ("Tj", b"A B"), ("ET",)],
    },
    # nested: invokes FmA from its own resources, then shows text itself
    "FmN": {
        "matrix": (1, 0, 0, 1, 16, 0),
        "fonts": {"F1": "C"},
        "xobjects": ["FmA"],
        "events": [
            ("Do", "/FmA"), ("BT",), ("Tf", "/F1", 16), ("Tc", 0), ("Tw", 0), ("Tz", 100), ("Ts", 0),
            ("g", Fr(3, 4)), ("Tj", b"C"), ("ET",),
        ],
    },
}
PAGE_RES = {"fonts": {"F1": "A", "F2": "B"}, "xobjects": ["FmA", "FmI", "FmN"]}


def font_dict(key: str, wset: Dict[str, str]) -> Dict[str, Any]:
    f = FONTS[key]
    w = FONTS[wset.get(key, key)]["w"]
    widths = [w.get(c, 0) for c in range(32, 68)]
    return {
        "Type": G.N("Font"), "Subtype": G.N("Type1"), "BaseFont": G.N(f["name"]), "FirstChar": 32, "LastChar": 67,
        "Widths": widths,
        "FontDescriptor": {
            "Type": G.N("FontDescriptor"), "FontName": G.N(f["name"]), "Flags": 32, "FontBBox": [0, -500, 1000, 1000],
            "Ascent": 750, "Descent": f["descent"], "ItalicAngle": 0, "CapHeight": 700, "StemV": 80,
        },
        **({"Encoding": {"Type": G.N("Encoding"), "BaseEncoding": G.N("WinAnsiEncoding"),
                         "Differences": [x for c, ch in sorted(f["enc"].items()) for x in (c, G.N(ch))]}} if "enc" in f else {}),
    }


def make_doc_fn(wset_i: int):
    wset = WIDTH_SETS[wset_i]

    def make_doc(streams):
        d = G.Doc()
        fref = {k: d.add(font_dict(k, wset)) for k in ("A", "B", "C")}
        xref: Dict[str, Any] = {}
        for name in ("FmA", "FmI", "FmN"):
            f = FORMS[name]
            res: Dict[str, Any] = {"Font": {k: fref[v] for k, v in f["fonts"].items()}}
            if f["xobjects"]:
                res["XObject"] = {k: xref[k] for k in f["xobjects"]}
            xref[name] = d.add(G.Stream(
                {"Type": G.N("XObject"), "Subtype": G.N("Form"), "BBox": [0, 0, 200, 200], "Matrix": list(f["matrix"]),
                 "Resources": res},
                gfx.program(f["events"]),
            ))
        return G.page_doc(
            [bytes(s) for s in streams] if len(streams) != 1 else bytes(streams[0]),
            fonts={k: fref[v] for k, v in PAGE_RES["fonts"].items()},
            resources_extra={"XObject": {k: xref[k] for k in PAGE_RES["xobjects"]}},
            doc=d,
        )

    return make_doc


# ------------------------------------------------------------------ reference model
SIG = {
    "q": "", "Q": "", "cm": "nnnnnn", "BT": "", "ET": "", "Tc": "n", "Tw": "n", "Tz": "n", "TL": "n", "Tf": "Nn",
    "Ts": "n", "Td": "nn", "TD": "nn", "Tm": "nnnnnn", "T*": "", "Tj": "s", "TJ": "a", "'": "s", '"': "nns",
    "g": "n", "rg": "nnn", "k": "nnnn", "Do": "N",
}

NCOMP = {"DeviceGray": 1, "DeviceRGB": 3, "DeviceCMYK": 4}

GS0 = {"ctm": gfx.IDENT, "Tc": 0, "Tw": 0, "Th": 1, "Tl": 0, "font": None, "Tfs": None, "rise": 0,
       "fill": ("DeviceGray", UNSET)}

# deviations = diagnosed causes; the verdict never uses them, only the signature does
D_DQ = "dquote-no-newline"
D_CTM = "device-ctm-not-restored-after-form"
D_TC = "trailing-charspace-dropped"
D_FORM = "form-does-not-inherit-graphics-state"
D_TD = "illtyped-Td-TD-partially-executed"
D_TF = "illtyped-Tf-sets-font"
D_QCS = "Q-does-not-restore-colour-space"
DEVIATIONS = [D_DQ, D_CTM, D_TC, D_FORM, D_TD, D_TF, D_QCS]


class TM:
    """PDF text model.  Immutable-style: ``apply`` returns a new object."""

    __slots__ = ("gs", "stack", "intext", "Tm", "Tlm", "out", "res", "wset", "dev", "dctm", "gcs", "tq")

    def __init__(self, wset_i=0, dev=frozenset()):
        self.gs = dict(GS0)
        self.stack: Tuple = ()
        self.intext = False
        self.Tm = gfx.IDENT
        self.Tlm = gfx.IDENT
        self.out: Tuple = ()
        self.res = PAGE_RES
        self.wset = wset_i
        self.dev = dev
        self.dctm = gfx.IDENT  # only used under D_CTM
        self.gcs = "DeviceGray"  # only used under D_QCS
        self.tq = False  # inside a q ... Q pair opened within the current text object

    def copy(self) -> "TM":
        o = TM.__new__(TM)
        o.gs = dict(self.gs)
        o.stack, o.intext, o.Tm, o.Tlm, o.out = self.stack, self.intext, self.Tm, self.Tlm, self.out
        o.res, o.wset, o.dev, o.dctm, o.gcs, o.tq = self.res, self.wset, self.dev, self.dctm, self.gcs, self.tq
        return o

    # state the future depends on (outputs excluded)
    def key(self):
        g = self.gs
        return (tuple(g[k] for k in ("ctm", "Tc", "Tw", "Th", "Tl", "font", "Tfs", "rise", "fill")),
                tuple(tuple(s[k] for k in ("ctm", "Tc", "Tw", "Th", "Tl", "font", "Tfs", "rise", "fill")) for s in self.stack),
                self.intext, self.Tm if self.intext else None, self.Tlm if self.intext else None, self.tq)

    def apply(self, ev) -> "TM":
        m = self.copy()
        m._do(ev)
        return m

    # -- operators
    def _do(self, ev):
        op = ev[0]
        a = ev[1:]
        g = self.gs
        if op == "sc":
            self._sc(a)
            return
        if not gfx.well_typed(ev, SIG[op]):
            self._illformed(ev)
            return
        if op == "q":
            self.stack = self.stack + (dict(g),)
            if self.intext:
                self.tq = True
        elif op == "Q":
            if self.stack:
                self.gs = dict(self.stack[-1])
                self.stack = self.stack[:-1]
                self.dctm = self.gs["ctm"]
            # Tm / Tlm are untouched: they are not graphics-state parameters (ISO 9.4.1), and since nothing is shown or
            # positioned between an in-text q and its Q (generator), "the pen as it was at q" is the same place
            self.tq = False
        elif op == "cm":
            g["ctm"] = gfx.mat_mul(gfx.mat(*a), g["ctm"])
            self.dctm = g["ctm"]
        elif op == "BT":
            self.intext = True
            self.Tm = self.Tlm = gfx.IDENT
        elif op == "ET":
            self.intext = False
        elif op == "Tc":
            g["Tc"] = gfx.num(a[0])
        elif op == "Tw":
            g["Tw"] = gfx.num(a[0])
        elif op == "Tz":
            g["Th"] = Fr(a[0]) / 100
        elif op == "TL":
            g["Tl"] = gfx.num(a[0])
        elif op == "Ts":
            g["rise"] = gfx.num(a[0])
        elif op == "Tf":
            g["font"] = self.res["fonts"][a[0][1:]]
            g["Tfs"] = gfx.num(a[1])
        elif op == "Td":
            self._td(gfx.num(a[0]), gfx.num(a[1]))
        elif op == "TD":
            g["Tl"] = -gfx.num(a[1])
            self._td(gfx.num(a[0]), gfx.num(a[1]))
        elif op == "Tm":
            self.Tm = self.Tlm = gfx.mat(*a)
        elif op == "T*":
            self._td(0, -g["Tl"])
        elif op == "Tj":
            self._show([a[0]])
        elif op == "TJ":
            self._show(list(a[0]))
        elif op == "'":
            self._td(0, -g["Tl"])
            self._show([a[0]])
        elif op == '"':
            g["Tw"] = gfx.num(a[0])
            g["Tc"] = gfx.num(a[1])
            if D_DQ not in self.dev:
                self._td(0, -g["Tl"])
            self._show([a[2]])
        elif op == "g":
            g["fill"] = ("DeviceGray", gfx.num(a[0]))
            self.gcs = "DeviceGray"
        elif op == "rg":
            g["fill"] = ("DeviceRGB", tuple(gfx.num(x) for x in a))
            self.gcs = "DeviceRGB"
        elif op == "k":
            g["fill"] = ("DeviceCMYK", tuple(gfx.num(x) for x in a))
            self.gcs = "DeviceCMYK"
        elif op == "Do":
            self._form(a[0][1:])
        else:
            raise KeyError(op)

    def _illformed(self, ev):
        """ISO gives an operator with missing/ill-typed operands no meaning: nothing changes."""
        op, a = ev[0], ev[1:]
        # diagnosed partial executions (signature only)
        if op in ("Td", "TD") and len(a) == 2 and D_TD in self.dev:
            if op == "TD" and gfx.is_num(a[1]):
                self.gs["Tl"] = -gfx.num(a[1])
            self.Tm = self.Tlm
        if op == "Tf" and len(a) == 2 and D_TF in self.dev and isinstance(a[0], str):
            self.gs["font"] = self.res["fonts"][a[0][1:]]

    def _sc(self, a):
        """sc takes as many numbers as the *current* non-stroking space has components (ISO 8.6.8)"""
        g = self.gs
        space = self.gcs if D_QCS in self.dev else g["fill"][0]
        n = NCOMP[space]
        if len(a) != n or not all(gfx.is_num(x) for x in a):
            return  # missing / ill-typed operands: nothing changes
        g["fill"] = (g["fill"][0], gfx.num(a[0]) if n == 1 else tuple(gfx.num(x) for x in a))

    def _td(self, tx, ty):
        self.Tlm = gfx.mat_mul((1, 0, 0, 1, tx, ty), self.Tlm)
        self.Tm = self.Tlm

    def _show(self, seq):
        g = self.gs
        if g["font"] is None:
            return  # not generated at top level; reachable only under D_FORM
        font = FONTS[g["font"]]
        widths = FONTS[WIDTH_SETS[self.wset].get(g["font"], g["font"])]["w"]
        enc = font.get("enc", {})
        Tfs, Th, Tc, Tw, rise = g["Tfs"], g["Th"], g["Tc"], g["Tw"], g["rise"]
        ctm = self.dctm if D_CTM in self.dev else g["ctm"]
        lazy = D_TC in self.dev
        need = False
        out = list(self.out)
        for el in seq:
            if isinstance(el, bytes):
                for code in el:
                    if lazy and need:
                        self.Tm = gfx.mat_mul((1, 0, 0, 1, Tc * Th, 0), self.Tm)
                    w0 = Fr(widths.get(code, 0), 1000)  # outside Widths and no MissingWidth: 0 (ISO table 122)
                    adv = w0 * Tfs * Th
                    m = gfx.mat_mul(self.Tm, ctm)
                    d = Fr(font["descent"], 1000) * Tfs
                    box = [(0, d + rise), (adv, d + rise), (adv, d + rise + Tfs), (0, d + rise + Tfs)]
                    bb = gfx.bound([gfx.mat_pt(m, p) for p in box])
                    out.append({
                        "text": enc.get(code, chr(code)) if code >= 32 else None, "font": font["name"], "matrix": m, "adv": adv, "bbox": bb,
                        "size": bb[3] - bb[1], "fill": (self.gcs, g["fill"][1]) if D_QCS in self.dev else g["fill"],
                    })
                    tx = w0 * Tfs * Th + (Tw * Th if code == 32 else 0)
                    if not lazy:
                        tx += Tc * Th
                    need = True
                    self.Tm = gfx.mat_mul((1, 0, 0, 1, tx, 0), self.Tm)
            elif gfx.is_num(el):
                tx = -Fr(el) / 1000 * Tfs * Th
                need = True
                self.Tm = gfx.mat_mul((1, 0, 0, 1, tx, 0), self.Tm)
        self.out = tuple(out)

    def _form(self, name):
        if name not in self.res["xobjects"]:
            return
        f = FORMS[name]
        inner = self.copy()
        if D_FORM in self.dev:
            inner.gs = dict(GS0)
            inner.gcs = "DeviceGray"
        inner.gs["ctm"] = gfx.mat_mul(gfx.mat(*(f["matrix"] or gfx.IDENT)), self.gs["ctm"])  # no /Matrix: identity
        inner.dctm = inner.gs["ctm"]
        inner.stack = ()
        inner.intext = False
        inner.res = f
        for ev in f["events"]:
            inner._do(ev)
        self.out = inner.out
        self.dctm = inner.dctm  # what a device that is never told about the return would keep


# ------------------------------------------------------------------ alphabet
TEXT_STATE = [
    ("Tc", 2), ("Tc", 0), ("Tw", 3), ("Tw", 0), ("Tz", 50), ("Tz", 100), ("TL", 12), ("Ts", 3), ("Ts", 0),
    ("Tf", "/F1", 8), ("Tf", "/F2", 10),
]
COLOUR = [("g", Fr(1, 2)), ("rg", 1, 0, Fr(1, 2))]
SC = {"DeviceGray": ("sc", Fr(1, 4)), "DeviceRGB": ("sc", Fr(1, 4), Fr(1, 2), Fr(3, 4)), "DeviceCMYK": ("sc", 0, Fr(1, 4), Fr(1, 2), 1)}
# full operand count, one operand of the wrong type: neither the colour nor the colour *space* may change
ILL_COLOUR = [("rg", 1, 0, b"oops"), ("g", "/N"), ("k", 0, 0, (1,), 1)]
SC_ILL = {"DeviceGray": ("sc", b"x"), "DeviceRGB": ("sc", 1, "/N", 0), "DeviceCMYK": ("sc", 0, 0, b"x", 1)}


def colour_events(m) -> list:
    space = m.gs["fill"][0]
    return COLOUR + [SC[space]] + ILL_COLOUR + [SC_ILL[space]]
POSITION = [
    ("Td", 7, -5), ("TD", 3, -14), ("Td", 0, 0), ("TD", 0, 0), ("Tm", 1, 0, 0, 1, 0, 0), ("Tm", 2, 0, 0, 2, 40, 80), ("Tm", Fr(1, 2), 1, -2, 4, 30, 20), ("T*",),  # 2nd: a, b, c, d pairwise distinct
]
SHOW = [
    ("Tj", b"A"), ("Tj", b"A B"), ("TJ", (b"A", -250, b"B", b"C")), ("'", b"C"), ('"', 1, 4, b"B"),
]
ILL_TEXT = [
    ("Tc",), ("Tc", b"x"), ("Tw", "/N"), ("Td", 1), ("Td", b"x", 1), ("TD", b"x", 5), ("TD", 5), ("Tj", "/N"),
    ('"', b"A"), ("Tf", "/F2", b"x"), ("Tf", 8), ("Tm", 1, 0, 0, 1, 5),
]
ILL_PAGE = [("cm", 1, 0, 0, 1, 5), ("Tc", b"x"), ("rg", 1, 0), ("Tf", "/F2", b"x")]
CM = [("cm", 1, 0, 0, 1, 16, 24), ("cm", 2, 0, 0, Fr(1, 2), 0, 0), ("cm", 0, 1, -1, 0, 96, 0)]
FORM_EV = [("Do", "/FmA"), ("Do", "/FmN"), ("Do", "/FmI")]


TQ_BETWEEN = [("g", Fr(1, 2)), ("rg", 1, 0, Fr(1, 2)), ("Tc", 2), ("Tz", 50), ("Tf", "/F2", 10), ("TL", 12)]


def enabled(m: TM) -> List[Tuple]:
    have_font = m.gs["font"] is not None
    if m.intext and m.tq:
        # q ... Q in the middle of a text line: only parameters that Q restores change in between; nothing is shown or
        # positioned, so every reading (Tm outside the graphics state / text state saved with the pen offset) agrees
        return [("Q",)] + TQ_BETWEEN
    if m.intext:
        ev = [("ET",), ("q",)] + TEXT_STATE + colour_events(m) + POSITION
        if have_font:
            ev += SHOW
        ev += ILL_TEXT
        return ev
    ev = [("q",)]
    if m.stack:
        ev.append(("Q",))
    ev += CM + [("BT",)] + TEXT_STATE + colour_events(m)
    ev += FORM_EV[:2]
    if have_font:
        ev.append(FORM_EV[2])
    ev += ILL_PAGE
    return ev


def probes(m: TM) -> List[Tuple[Tuple, ...]]:
    """show operators fired in a state at the depth bound (each from that same state)"""
    setf = () if m.gs["font"] is not None else (("Tf", "/F1", 8),)
    if m.intext and m.tq:
        return [(("Q",),) + setf + (s,) for s in SHOW]
    if m.intext:
        return [setf + (s,) for s in SHOW]
    out = [(("BT",),) + setf + (s,) + (("ET",),) for s in SHOW]
    out.append((("Do", "/FmA"), ("BT",)) + setf + (("Tj", b"A"), ("ET",)))
    return out


ROOTS = {
    "page": (),
    "text": (("BT",), ("Tf", "/F1", 8)),
    "cmtext": (("q",), ("cm", 2, 0, 0, Fr(1, 2), 0, 0), ("g", Fr(1, 2)), ("BT",), ("Tf", "/F2", 10), ("Tc", 2)),
}

BOUNDS = {
    "quick": {"depth": {"page": 4, "text": 3, "cmtext": 2}, "shard_depth": 2, "split2_depth": 3, "split3_depth": 2,
              "variants_deep": 1, "full_depth": 1, "wsets": [0, 1], "depth_wset1": 2, "same_single": 3, "same_pair": 2},
    "thorough": {"depth": {"page": 5, "text": 4, "cmtext": 3}, "shard_depth": 2, "split2_depth": 3, "split3_depth": 2,
                 "variants_deep": 3, "full_depth": 2, "wsets": [0, 1], "depth_wset1": 3, "same_single": 4, "same_pair": 3},
}

META = {
    "rule": (
        "breadth-first search over operator histories from three root prefixes (empty page; BT /F1 8 Tf; q cm g BT /F2 10 Tf 2 Tc) "
        "with the operator instances of the alphabet (q Q cm x3, BT ET, Tc Tw Tz TL Ts Tf x2 values, Td TD x2 each (one a zero offset) Tm x3 (one the identity) T*, Tj x2 TJ ' \", g rg sc, ill-typed full-count g rg k sc, "
        "Do of a self-contained / a nested / an inheriting form XObject, 16 further ill-formed instances), only ISO-conformant orders "
        "(no cm/Do inside BT..ET, show only after Tf) plus one tolerated construct: q ... Q opened inside a text object (also in the middle of a text "
        "line) with only g rg Tc Tz Tf TL in between -- after Q the pen is where it was and every parameter has its value from before q; state = (canonical real interpreter state, model state), deduplicated; "
        "every transition re-executes the whole history on the real interpreter and compares every glyph (text, font, matrix, advance, box, "
        "size, fill colour, colour space); in every state at the depth bound every show operator (and Do+show) is fired separately; every history up to "
        "split2_depth is split into 2 content streams at every white-space byte of the program, inside literal strings included (byte kept left or right; between tokens also replaced by LF | CR LF; only 'kept left' beyond split3_depth) and up to split3_depth into every 3-stream division at those bytes plus empty streams, and histories up to "
        "full_depth go through a complete PDF file. Width-table set 0 is explored in full, set 1 (names rebound to other tables) from the 'text' root to depth_wset1. "
        "Family samename: two font dictionaries with the same BaseFont name but other Widths and another Encoding, bound to F1/F2 (both ways round); every "
        "page of 1..same_single (Tf, Tj) items, and every two-page document of pages with 1..same_pair items x the 4 resource bindings, each document "
        "processed by one resource manager, one device and one interpreter. "
        "Family rawsplit: 4 hand-written programs with white space inside literal strings (blank, LF, CR, CR LF, escaped end-of-line), comments, a hex string, "
        "an array and an inline image (dictionary and ID/EI framing), cut before and after every white-space byte into 2 streams (both seams) and at every pair of "
        "such bytes into 3 streams. "
        "Family misc: 4 caller CTMs x 3 forms without /Matrix or with an identity one that leave a cm (or an unbalanced q cm) behind, one nested, text shown after Do; "
        "Tm and cm with a name or a string at every operand position, one at a time; all 8 direct/indirect patterns of a three-font /Font dictionary on the page and in a form (one caching resource manager); a vertical-writing font "
        "(Type0, Identity-V, DW2/W2): 2 CTMs x Tc {0,-2} x all ordered pairs of 5 show operators (Tj, TJ with numbers between / before strings, ', \"), glyph origins judged. "
        "Family leftover: every list of 1..2 operands from {30, 40, (A), /F2} left unconsumed at the end of a page (or of a form XObject), followed -- "
        "directly, after an unrelated page, or after the form -- by a page with one of 12 operators lacking operands (inside and outside BT, plus a bare cm) "
        "and then show operators; one interpreter/device per document, every page judged on its own. "
        "A case = one executed program (key = program bytes + width set); non-trivial = the model reports at least one glyph. "
        "states = distinct (real,model) states summed over shards, transitions = operator applications executed on the real code, "
        "traces = complete programs compared with the model."
    ),
    "bound": {k: str(v) for k, v in BOUNDS.items()},
    "assumptions": [
        "operand values outside the alphabet (two values per parameter, dyadic) are not explored; floats compared with 1e-9 relative tolerance",
        "histories longer than the depth bound are not explored; dedup merges histories reaching the same (real, model) state",
        "glyph box convention (descent .. descent+size, advance wide) is taken from LTChar's documented behaviour; vertical fonts only in family misc (origins only, Tz 100); Tr, Type3 are out of scope",
        "fill colour before any colour operator (ISO: black) is not judged; pdfminer reports None",
        "partially ill-typed composite operators (' and \" with a wrong string operand) are not generated; extra operands are not generated",
        "fast seam replaces PDFPage.contents by in-memory PDFStream objects on a page parsed from a real file; the complete-file seam is used for histories up to full_depth and their splits",
    ],
}

DEADLINE = {"quick": 1500, "thorough": 4 * 3600}


# ------------------------------------------------------------------ comparison
def observe(ltpage) -> List[Dict[str, Any]]:
    from pdfminer.layout import LTChar

    out = []
    for c in gfx.flatten(ltpage, LTChar):
        out.append({
            "text": c.get_text(), "font": c.fontname, "matrix": tuple(c.matrix), "adv": c.adv, "bbox": tuple(c.bbox),
            "size": c.size, "fill": (getattr(c.ncs, "name", None), c.graphicstate.ncolor),
        })
    return out


def glyph_diff(e: Dict[str, Any], o: Dict[str, Any]) -> List[str]:
    bad = []
    if e["text"] is not None and e["text"] != o["text"]:  # codes without a character (LF in a string): text not judged
        bad.append("text")
    if e["font"] != o["font"]:
        bad.append("font")
    if not gfx.close_seq(tuple(e["matrix"]), tuple(o["matrix"])):
        bad.append("matrix")
    if not gfx.close(e["adv"], o["adv"]):
        bad.append("adv")
    if not gfx.close_seq(tuple(e["bbox"]), tuple(o["bbox"])):
        bad.append("bbox")
    if not gfx.close(e["size"], o["size"]):
        bad.append("size")
    es, ev = e["fill"]
    os_, ov = o["fill"]
    if es != os_:
        bad.append("colourspace")
    if ev != UNSET and not gfx.close_seq(ev, ov):
        bad.append("fill")
    return bad


def diff(exp: List[Dict], obs: List[Dict]) -> List[str]:
    if len(exp) != len(obs):
        return [f"count:{len(exp)}!={len(obs)}"]
    bad: List[str] = []
    for e, o in zip(exp, obs):
        for b in glyph_diff(e, o):
            if b not in bad:
                bad.append(b)
    return bad


def run_model(events, wset, dev=frozenset()) -> TM:
    m = TM(wset, dev)
    for ev in events:
        m._do(ev)
    return m


def classify(events, wset, obs, exc) -> List[str]:
    """Signatures of the diagnosed causes: the smallest set of known deviations from ISO that predicts the
    observed glyphs *exactly*; a case explained by two causes is reported under both.  Anything not
    explained exactly is 'unclassified' (fields that differ + last operator)."""
    if exc is not None:
        return [f"C05/exception:{gfx.exc_sig(exc)}"]
    for k in (1, 2):
        for devs in itertools.combinations(DEVIATIONS, k):
            try:
                alt = run_model(events, wset, frozenset(devs))
            except Exception:  # noqa
                continue
            if not diff(list(alt.out), obs):
                return ["C05/" + d for d in devs]
    exp = list(run_model(events, wset).out)
    ops = [e[0] for e in events]
    last = next((o for o in reversed(ops) if o not in ("ET",)), "")
    return ["C05/unclassified:" + ",".join(sorted(diff(exp, obs))) + "@" + last]


def terminated(events, model: TM) -> Tuple:
    return tuple(events) + ((("ET",),) if model.intext else ())


class Checker:
    def __init__(self, wset: int, st, tier: str):
        self.wset = wset
        self.st = st
        self.tier = tier
        self.bench = gfx.Bench(make_doc_fn(wset))
        self.classified = 0

    def execute(self, events, model: TM, streams=None, full=False, what="history"):
        """run the real code on ``events`` (model = model after events), compare, record; return canonical real state"""
        st = self.st
        evs = terminated(events, model)
        if streams is None:
            streams = [gfx.program(evs)]
        if full:
            lt, it, dev, exc, _ = self.bench.run_full(streams)
        else:
            lt, it, dev, exc = self.bench.run(streams)
        obs = observe(lt) if exc is None else []
        exp = list(model.out)
        bad = diff(exp, obs) if exc is None else ["exception"]
        st.traces += 1
        st.case((self.wset, tuple(streams), full), nontrivial=bool(exp),
                outcome=h64([(o["text"], o["font"], o["matrix"], o["adv"], o["fill"]) for o in obs]) if exc is None else gfx.exc_sig(exc))
        if bad:
            if len(streams) > 1 and any(bytes(x).endswith(b"ID") for x in streams[:-1]):
                # diagnosed: the offset of the image data is taken relative to the stream holding "ID" but applied to the next one
                sigs = ["C05/inline-image-ID-at-end-of-stream"]
            elif self.classified <= 40:
                sigs = classify(evs, self.wset, obs, exc)
                if "unclassified" in sigs[0]:
                    self.classified += 1
            else:
                sigs = ["C05/unclassified-bulk(more than 40 unexplained failing cases in one shard)"]
            for sig in sigs:
                st.violation(
                    sig,
                    {"events": list(evs), "wset": self.wset, "streams": list(streams), "full": full,
                     # the complete file, for readers of the artefact (only the few stored cases carry it)
                     "pdf": self.bench.make_doc(list(streams)) if st.viol_counts[sig] < st.MAX_VIOL_PER_SIG else b""},
                    gfx.fl(exp), obs if exc is None else gfx.exc_sig(exc),
                    f"{what}: differs in {','.join(bad)}" + (f" (explained by {len(sigs)} causes together)" if len(sigs) > 1 else ""),
                )
        return gfx.canon_interp(it, dev) if exc is None else ("exc", gfx.exc_sig(exc))

    def splits(self, events, model: TM, full: bool, variants: int = 3, three: bool = True):
        """every division of the program into 2 (and 3) streams at a white-space byte -- between tokens as well as
        inside a literal string such as (A B); the bytes themselves are never changed, except in the third variant
        which replaces a separator between two tokens by LF | CR LF"""
        evs = terminated(events, model)
        toks = gfx.tokens(evs)
        n = len(toks)
        if n < 2:
            return
        raw = b" ".join(toks)
        left, allc = gfx.ws_cuts(raw)
        done = self.byte_splits(events, model, raw, left if variants == 1 else allc, left if three else [], full)
        if variants >= 3:
            for i in range(1, n):
                a, b = b" ".join(toks[:i]) + b"\n", b"\r\n" + b" ".join(toks[i:])
                self.execute(events, model, streams=[a, b], full=full, what="split-2")
                done += 1
        if three:
            # an empty stream in the middle and at both ends changes nothing either
            self.execute(events, model, streams=[b"", raw, b""], full=full, what="split-empty")
            done += 1
        self.st.add("split_programs", done)

    def byte_splits(self, events, model, raw: bytes, cuts2, cuts3, full: bool) -> int:
        done = 0
        for c in cuts2:
            self.execute(events, model, streams=[raw[:c], raw[c:]], full=full, what="split-2")
            done += 1
        for x in range(len(cuts3)):
            for y in range(x + 1, len(cuts3)):
                i, j = cuts3[x], cuts3[y]
                self.execute(events, model, streams=[raw[:i], raw[i:j], raw[j:]], full=full, what="split-3")
                done += 1
        return done


def search(root_name: str, wset: int, tier: str, st, prefix: Tuple = (), max_depth: Optional[int] = None,
           collect: bool = False, judge: bool = True):
    b = BOUNDS[tier]
    ck = Checker(wset, st, tier)
    root = ROOTS[root_name]
    model = run_model(root + prefix, wset)
    depth_bound = depth_of(tier, root_name, wset) if max_depth is None else max_depth

    def step(node, ev):
        m2 = node.model.apply(ev)
        real = ck.execute(node.hist + (ev,), m2)
        return m2, (real, m2.key())

    def on_new(node, at_bound):
        d = node.depth
        if not judge:
            return
        if d <= b["split2_depth"] and root_name != "cmtext" and wset == 0:
            three = d <= b["split3_depth"]
            ck.splits(node.hist, node.model, full=False, variants=3 if three else b["variants_deep"], three=three)
            if d <= b["full_depth"]:
                ck.execute(node.hist, node.model, full=True, what="complete-file")
                ck.splits(node.hist, node.model, full=True)
        if at_bound and not collect:
            for p in probes(node.model):
                m2 = node.model
                for ev in p:
                    m2 = m2.apply(ev)
                ck.execute(node.hist + p, m2, what="probe")
                st.add("frontier_probes", 1)

    real0 = ck.execute(root + prefix, model, what="root")
    res = gfx.explore(root + prefix, model, enabled, step, depth_bound, on_new, start_depth=len(prefix),
                      collect_frontier=collect, root_key=(real0, model.key()))
    return res, ck


# ------------------------------------------------------------------ family: two fonts with one name, one device
SAME_RES = [{"F1": "S1", "F2": "S2"}, {"F1": "S2", "F2": "S1"}]
SAME_ITEMS = [(f, t) for f in ("/F1", "/F2") for t in (b"A", b"CAB")]


def same_page_programs(maxitems: int):
    """BT, then 1..maxitems of (Tf Fi 8, Tj s), ET -- fonts alternate freely"""
    for k in range(1, maxitems + 1):
        for items in itertools.product(SAME_ITEMS, repeat=k):
            evs = [("BT",)]
            for f, t in items:
                evs += [("Tf", f, 8), ("Tj", t)]
            yield tuple(evs) + (("ET",),)


def same_doc(pages) -> bytes:
    """pages: list of (events, resource-variant index)"""
    d = G.Doc()
    fref = {k: d.add(font_dict(k, {})) for k in ("S1", "S2")}
    return gfx.pages_doc([(gfx.program(evs), {"Font": {n: fref[k] for n, k in SAME_RES[r].items()}}) for evs, r in pages], doc=d)


def same_check(pages, st):
    data = same_doc(pages)
    res = gfx.run_pages(data)
    st.traces += 1
    allexp, allobs, bad = [], [], []
    for (evs, r), (lt, exc) in zip(pages, res):
        m = TM()
        m.res = {"fonts": SAME_RES[r], "xobjects": []}
        for ev in evs:
            m._do(ev)
        exp = list(m.out)
        obs = observe(lt) if exc is None else gfx.exc_sig(exc)
        allexp.append(gfx.fl(exp))
        allobs.append(obs)
        b = diff(exp, obs) if exc is None else ["exception"]
        bad += [x for x in b if x not in bad]
    if len(res) != len(pages):
        bad.append("pages")
    st.case(None, nontrivial=True, outcome=h64(repr(allobs)))
    if bad:
        st.violation(
            "C05/samename-fonts:" + ",".join(sorted(bad)),
            {"family": "samename", "pages": [[list(evs), r] for evs, r in pages], "pdf": data if st.viol_counts["C05/samename-fonts:" + ",".join(sorted(bad))] < st.MAX_VIOL_PER_SIG else b""},
            allexp, allobs, "two font dictionaries with one BaseFont name on one device: differs in " + ",".join(sorted(bad)),
        )
    return bad


def same_shard(shard, tier, st):
    b = BOUNDS[tier]
    _, r1, r2 = shard
    singles = list(same_page_programs(b["same_single"]))
    pairs = list(same_page_programs(b["same_pair"]))
    n = 0
    if r2 is None:
        for p in singles:
            same_check([(p, r1)], st)
            n += 1
        st.sample({"family": "samename", "page": gfx.program(singles[-1]), "resources": SAME_RES[r1]})
    else:
        for p1 in pairs:
            for p2 in pairs:
                same_check([(p1, r1), (p2, r2)], st)
                n += 1
    st.states += n + 1
    st.transitions += n
    st.add("samename_documents", n)


# ------------------------------------------------------------------ family: white space inside tokens, split across streams
RAW_PROGRAMS = [
    # white space inside literal strings: blank, LF, CR, CR LF (an unescaped end-of-line is one LF byte, ISO 7.3.4.2)
    (b"BT /F1 8 Tf (A B) Tj (A\nB) Tj (A\rB) Tj (A\r\nB) Tj ET",
     (("BT",), ("Tf", "/F1", 8), ("Tj", b"A B"), ("Tj", b"A\nB"), ("Tj", b"A\nB"), ("Tj", b"A\nB"), ("ET",))),
    # escaped end-of-line (line continuation) inside strings; comments containing blanks and a parenthesis
    (b"BT /F1 8 Tf (A\\\nB) Tj (A\\\r\nC) Tj 2 Tc % a comment, (not a string\r\n (C) Tj % tail comment\n (A) Tj ET",
     (("BT",), ("Tf", "/F1", 8), ("Tj", b"AB"), ("Tj", b"AC"), ("Tc", 2), ("Tj", b"C"), ("Tj", b"A"), ("ET",))),
    # white space inside a hex string and inside an array (also inside a string that is inside the array)
    (b"BT /F2 10 Tf <41 20\n42> Tj [ (A) -250\r\n(B  C) ] TJ ET",
     (("BT",), ("Tf", "/F2", 10), ("Tj", b"A B"), ("TJ", (b"A", -250, b"B  C")), ("ET",))),
    # an inline image (dictionary and data framing) between two text objects: the text is what it would be without it
    (b"BT /F1 8 Tf (A) Tj ET q 4 0 0 4 8 8 cm BI /W 1 /H 1 /BPC 8 /CS /G ID x EI Q BT /F1 8 Tf 3 Tw (A B) Tj ET",
     (("BT",), ("Tf", "/F1", 8), ("Tj", b"A"), ("ET",), ("q",), ("cm", 4, 0, 0, 4, 8, 8), ("Q",), ("BT",), ("Tf", "/F1", 8), ("Tw", 3),
      ("Tj", b"A B"), ("ET",))),
]


def raw_shard(i: int, tier: str, st):
    raw, evs = RAW_PROGRAMS[i]
    ck = Checker(0, st, tier)
    model = run_model(evs, 0)
    ck.execute(evs, model, streams=[raw], what="raw program")
    ck.execute(evs, model, streams=[raw], full=True, what="raw program, complete file")
    left, allc = gfx.ws_cuts(raw)
    n = ck.byte_splits(evs, model, raw, allc, allc if tier == "thorough" else left, False)
    n += ck.byte_splits(evs, model, raw, allc, [], True)
    st.states += n + 1
    st.transitions += n
    st.add("split_programs", n)
    st.add("real_runs_fast", ck.bench.runs)
    st.add("real_runs_complete_file", ck.bench.full_runs)
    st.sample({"family": "rawsplit", "program": raw, "streams": [raw[:allc[len(allc) // 2]], raw[allc[len(allc) // 2]:]]})


# ------------------------------------------------------------------ family: operands left over at the end of a page / form
LEFT_POOL = [30, 40, b"A", "/F2"]
LEFT_BARE = [("Td",), ("TD",), ("Tf",), ("Tc",), ("Tw",), ("TL",), ("Tj",), ("'",), ("Td", 5), ("Tf", "/F2"), ("Tm", 1, 0, 0, 1), ('"', b"B")]
LEFT_PAGE1 = (("BT",), ("Tf", "/F1", 8), ("Tj", b"B"), ("ET",))
LEFT_FORM = (("BT",), ("Tf", "/F1", 8), ("Tj", b"C"), ("ET",))


def left_page2(bare, outside: bool):
    """an operator with missing operands, then a show operator whose glyph position/font/spacing would reveal any effect"""
    if outside:  # the ill-formed operator at page level (cm with no operands as well)
        return (("cm",), bare, ("BT",), ("Tf", "/F1", 8), ("Tj", b"A B"), ("ET",))
    return (("BT",), ("Tf", "/F1", 8), ("TL", 12), bare, ("Tj", b"A B"), ("T*",), ("Tj", b"C"), ("ET",))


def left_check(leftover, st):
    """one document per leftover operand list; every page is judged on its own (ISO: a page starts with an empty operand stack)"""
    tail = b" " + b" ".join(t for o in leftover for t in gfx._tok_operand(o))
    d = G.Doc()
    wset = WIDTH_SETS[0]
    fref = {k: d.add(font_dict(k, wset)) for k in ("A", "B")}
    fonts = {"F1": fref["A"], "F2": fref["B"]}
    form = d.add(G.Stream({"Type": G.N("XObject"), "Subtype": G.N("Form"), "BBox": [0, 0, 200, 200], "Resources": {"Font": fonts}},
                          gfx.program(LEFT_FORM) + tail))
    res = {"Font": fonts, "XObject": {"FmL": form}}
    pages, evs = [], []
    for bare in LEFT_BARE:
        for outside in (False, True):
            p2 = left_page2(bare, outside)
            # page ending with leftovers, then the page with the ill-formed operator
            pages += [(gfx.program(LEFT_PAGE1) + tail, res), (gfx.program(p2), res)]
            evs += [LEFT_PAGE1, p2]
        # leftovers, an unrelated complete page in between, then the ill-formed operator
        p2 = left_page2(bare, False)
        pages += [(gfx.program(LEFT_PAGE1) + tail, res), (gfx.program(LEFT_PAGE1), res), (gfx.program(p2), res)]
        evs += [LEFT_PAGE1, LEFT_PAGE1, p2]
        # a form that ends with leftovers, invoked before the ill-formed operator
        p3 = (("Do", "/FmL"),) + p2
        pages.append((gfx.program(p3), res))
        evs.append(p3)
    data = gfx.pages_doc(pages, doc=d)
    out = gfx.run_pages(data)
    st.traces += 1
    bad, allexp, allobs = [], [], []
    for e, (lt, exc) in zip(evs, out):
        m = TM()
        m.res = {"fonts": {"F1": "A", "F2": "B"}, "xobjects": []}
        for ev in e:
            if ev == ("Do", "/FmL"):
                for fe in LEFT_FORM:  # no Matrix, same fonts: the form's glyphs are those of its content
                    m._do(fe)
                continue
            m._do(ev)
        exp = list(m.out)
        obs = observe(lt) if exc is None else gfx.exc_sig(exc)
        allexp.append(gfx.fl(exp))
        allobs.append(obs)
        b = diff(exp, obs) if exc is None else ["exception"]
        bad += [x for x in b if x not in bad]
    if len(out) != len(pages):
        bad.append("pages")
    st.case(None, nontrivial=True, outcome=h64(repr(allobs)), n=len(pages))
    if bad:
        sig = "C05/leftover-operands-cross-page:" + ",".join(sorted(bad))
        st.violation(sig, {"family": "leftover", "leftover": list(leftover), "pdf": data if st.viol_counts[sig] < st.MAX_VIOL_PER_SIG else b""},
                     allexp, allobs, "operands left at the end of a page/form are used by a later operator: " + ",".join(sorted(bad)))


# ------------------------------------------------------------------ family misc: Matrix-less forms, mixed font resources, vertical writing
_SELF = (("Tc", 0), ("Tw", 0), ("Tz", 100), ("Ts", 0), ("g", Fr(1, 4)))
FORMS.update({
    # no /Matrix at all; a cm that nothing undoes
    "FmC": {"matrix": None, "fonts": {"F1": "B"}, "xobjects": [],
            "events": (("cm", 1, 0, 0, 1, 3, 4), ("BT",), ("Tf", "/F1", 8)) + _SELF + (("Tj", b"AB"), ("ET",))},
    # an explicit identity /Matrix; an unbalanced q cm
    "FmQ": {"matrix": (1, 0, 0, 1, 0, 0), "fonts": {"F1": "B"}, "xobjects": [],
            "events": (("q",), ("cm", 2, 0, 0, 2, 0, 0), ("BT",), ("Tf", "/F1", 8)) + _SELF + (("Tj", b"AB"), ("ET",))},
    # Matrix-less form invoking the Matrix-less form, then showing text itself
    "FmX": {"matrix": None, "fonts": {"F1": "C"}, "xobjects": ["FmC"],
            "events": (("cm", 0, 1, -1, 0, 8, 0), ("Do", "/FmC"), ("BT",), ("Tf", "/F1", 16)) + _SELF + (("Tj", b"C"), ("ET",))},
    # a form whose own /Font resources mix direct and indirect dictionaries
    "FmR": {"matrix": None, "fonts": {"F1": "A", "F2": "B", "F3": "C"}, "xobjects": [],
            "events": (("BT",), ("Tf", "/F1", 8), ("Tj", b"AB"), ("Tf", "/F2", 8), ("Tj", b"AB"), ("Tf", "/F3", 8), ("Tj", b"AB"), ("ET",))},
})
MISC_AFTER = (("BT",), ("Tf", "/F1", 8), ("Tj", b"A B"), ("ET",))


def _form_obj(d, name, fonts_res, xobj_refs):
    f = FORMS[name]
    dd = {"Type": G.N("XObject"), "Subtype": G.N("Form"), "BBox": [0, 0, 400, 400], "Resources": {"Font": fonts_res}}
    if f["matrix"] is not None:
        dd["Matrix"] = list(f["matrix"])
    if f["xobjects"]:
        dd["Resources"]["XObject"] = {k: xobj_refs[k] for k in f["xobjects"]}
    return d.add(G.Stream(dd, gfx.program(f["events"])))


def misc_pages(st):
    """(a) caller CTM pool x forms without / with identity Matrix that leave a cm behind, text shown after Do;
    (b) all 8 direct/indirect patterns of a three-font /Font dictionary, on the page and in a form, one resource manager"""
    d = G.Doc()
    wset = WIDTH_SETS[0]
    fref = {k: d.add(font_dict(k, wset)) for k in ("A", "B", "C")}
    xr: Dict[str, Any] = {}
    for name in ("FmC", "FmQ", "FmX"):
        xr[name] = _form_obj(d, name, {k: fref[v] for k, v in FORMS[name]["fonts"].items()}, xr)
    pages, models = [], []
    page_fonts = {"F1": fref["A"], "F2": fref["B"]}
    for cm in [None] + CM:
        for name in ("FmC", "FmQ", "FmX"):
            evs = ((cm,) if cm else ()) + (("Do", "/" + name),) + MISC_AFTER
            pages.append((gfx.program(evs), {"Font": page_fonts, "XObject": dict(xr)}))
            models.append((evs, {"fonts": {"F1": "A", "F2": "B"}, "xobjects": ["FmC", "FmQ", "FmX"]}))
    # Tm / cm with one operand of the wrong type at every position, one at a time: nothing changes
    for pos in range(6):
        for bad in ("/x", b"s"):
            tm = (2, 0, 0, 2, 40, 80)
            ill = tm[:pos] + (bad,) + tm[pos + 1:]
            for evs in (
                (("BT",), ("Tf", "/F1", 8), ("Td", 7, -5), ("Tj", b"A"), ("Tm",) + ill, ("Tj", b"B"), ("T*",), ("Tj", b"C"), ("ET",)),
                (("cm", 1, 0, 0, 1, 16, 24), ("cm",) + ill, ("BT",), ("Tf", "/F1", 8), ("Tj", b"A B"), ("ET",)),
            ):
                pages.append((gfx.program(evs), {"Font": page_fonts}))
                models.append((evs, {"fonts": {"F1": "A", "F2": "B"}, "xobjects": []}))
    for pattern in itertools.product((0, 1), repeat=3):  # 1 = direct dictionary, 0 = indirect reference
        fonts = {n: (font_dict(k, wset) if direct else fref[k]) for (n, k), direct in zip((("F1", "A"), ("F2", "B"), ("F3", "C")), pattern)}
        evs = FORMS["FmR"]["events"]
        pages.append((gfx.program(evs), {"Font": fonts}))
        models.append((evs, {"fonts": {"F1": "A", "F2": "B", "F3": "C"}, "xobjects": []}))
        fm = _form_obj(d, "FmR", fonts, {})
        evs2 = (("Do", "/FmR"),) + MISC_AFTER
        pages.append((gfx.program(evs2), {"Font": {"F1": fref["A"]}, "XObject": {"FmR": fm}}))
        models.append((evs2, {"fonts": {"F1": "A"}, "xobjects": ["FmR"]}))
    data = gfx.pages_doc(pages, doc=d)
    out = gfx.run_pages(data)
    st.traces += 1
    for (evs, res), (lt, exc) in zip(models, out):
        m = TM()
        m.res = res
        for ev in evs:
            m._do(ev)
        exp = list(m.out)
        obs = observe(lt) if exc is None else gfx.exc_sig(exc)
        bad = diff(exp, obs) if exc is None else ["exception"]
        st.case(None, nontrivial=bool(exp), outcome=h64(repr(obs)))
        if bad:
            kind = ("form-without-matrix-ctm" if any(e[0] == "Do" and e[1] != "/FmR" for e in evs) else
                    "illtyped-matrix-operand" if any(e[0] in ("Tm", "cm") and not gfx.well_typed(e, "nnnnnn") for e in evs) else "mixed-direct-indirect-fonts")
            sig = "C05/" + kind + ":" + ",".join(sorted(bad))
            st.violation(sig, {"family": "misc", "events": list(evs), "pdf": data if st.viol_counts[sig] < 1 else b""},
                         gfx.fl(exp), obs, "Matrix-less form / mixed font resources: " + ",".join(sorted(bad)))
    if len(out) != len(pages):
        st.violation("C05/misc:pages", {"family": "misc"}, len(pages), len(out), "page count")
    return len(pages)


# vertical writing (ISO 9.4.4, 9.7.4.3): the displacement of a glyph is (0, w1); the pen moves along y by
# (w1 - Tj/1000) * Tfs + Tc; horizontal scaling does not apply (kept at 100 here)
V_W1 = {1: -500, 2: -750}   # W2; everything else DW2 = -1000
V_SHOWS = [
    ("Tj", b"\x00\x01\x00\x02\x00\x03"),
    ("TJ", (b"\x00\x01", -250, b"\x00\x02\x00\x03", 500, b"\x00\x01")),
    ("TJ", (125, b"\x00\x03", b"\x00\x02")),
    ("'", b"\x00\x02\x00\x01"),
    ('"', 1, -1, b"\x00\x03\x00\x01"),
]


def vert_model(evs):
    ctm = gfx.IDENT
    Tm = Tlm = gfx.IDENT
    Tc, Tl, Tfs = 0, 0, None
    out = []

    def nl():
        nonlocal Tm, Tlm
        Tlm = gfx.mat_mul((1, 0, 0, 1, 0, -Tl), Tlm)
        Tm = Tlm

    def show(seq):
        nonlocal Tm
        for el in seq:
            if isinstance(el, bytes):
                for i in range(0, len(el), 2):
                    cid = el[i] * 256 + el[i + 1]
                    out.append(gfx.mat_mul(Tm, ctm))
                    ty = Fr(V_W1.get(cid, -1000), 1000) * Tfs + Tc
                    Tm = gfx.mat_mul((1, 0, 0, 1, 0, ty), Tm)
            else:
                Tm = gfx.mat_mul((1, 0, 0, 1, 0, -Fr(el) / 1000 * Tfs), Tm)

    for ev in evs:
        op, a = ev[0], ev[1:]
        if op == "cm":
            ctm = gfx.mat_mul(gfx.mat(*a), ctm)
        elif op == "BT":
            Tm = Tlm = gfx.IDENT
        elif op == "Tf":
            Tfs = gfx.num(a[1])
        elif op == "Tc":
            Tc = gfx.num(a[0])
        elif op == "TL":
            Tl = gfx.num(a[0])
        elif op == "Td":
            Tlm = gfx.mat_mul((1, 0, 0, 1, gfx.num(a[0]), gfx.num(a[1])), Tlm)
            Tm = Tlm
        elif op == "Tj":
            show([a[0]])
        elif op == "TJ":
            show(a[0])
        elif op == "'":
            nl()
            show([a[0]])
        elif op == '"':
            Tc = gfx.num(a[1])
            nl()
            show([a[2]])
    return out


def vert_pages(st):
    d = G.Doc()
    cid = d.add({"Type": G.N("Font"), "Subtype": G.N("CIDFontType2"), "BaseFont": G.N("VerifV"),
                 "CIDSystemInfo": {"Registry": b"Adobe", "Ordering": b"Identity", "Supplement": 0},
                 "DW": 1000, "DW2": [880, -1000], "W2": [1, [-500, 500, 880, -750, 500, 880]], "CIDToGIDMap": G.N("Identity"),
                 "FontDescriptor": {"Type": G.N("FontDescriptor"), "FontName": G.N("VerifV"), "Flags": 4, "FontBBox": [0, -250, 1000, 750],
                                    "Ascent": 750, "Descent": -250, "ItalicAngle": 0, "CapHeight": 700, "StemV": 80}})
    f0 = d.add({"Type": G.N("Font"), "Subtype": G.N("Type0"), "BaseFont": G.N("VerifV"), "Encoding": G.N("Identity-V"),
                "DescendantFonts": [cid]})
    # a horizontal Type0 font over the SAME descendant CIDFont object, listed before the vertical one on some pages: the
    # writing mode belongs to the Type0 font's /Encoding, not to the descendant both share
    fh = d.add({"Type": G.N("Font"), "Subtype": G.N("Type0"), "BaseFont": G.N("VerifV"), "Encoding": G.N("Identity-H"),
                "DescendantFonts": [cid]})
    pages, progs = [], []
    for cm in (None, CM[2]):
        for tc in (0, -2):
            for s1 in V_SHOWS:
                for s2 in V_SHOWS:
                    evs = ((cm,) if cm else ()) + (("BT",), ("Tf", "/V1", 10), ("TL", 12), ("Td", 40, 300), ("Tc", tc), s1, s2, ("ET",))
                    progs.append(evs)
                    pages.append((gfx.program(evs), {"Font": {"H1": fh, "V1": f0} if cm is None else {"V1": f0}}))
    data = gfx.pages_doc(pages, doc=d)
    out = gfx.run_pages(data)
    st.traces += 1
    from pdfminer.layout import LTChar

    for evs, (lt, exc) in zip(progs, out):
        exp = vert_model(evs)
        if exc is None:
            chars = gfx.flatten(lt, LTChar)
            obs = [tuple(c.matrix) for c in chars]
            bad = [] if len(obs) == len(exp) and all(gfx.close_seq(tuple(e), o) for e, o in zip(exp, obs)) else (
                ["count"] if len(obs) != len(exp) else ["origin"])
            if not bad and any(c.fontname != "VerifV" for c in chars):
                bad = ["font"]
        else:
            obs, bad = gfx.exc_sig(exc), ["exception"]
        st.case(None, nontrivial=True, outcome=h64(repr(obs)))
        if bad:
            sig = "C05/vertical-writing:" + ",".join(bad)
            st.violation(sig, {"family": "misc", "vertical": True, "events": list(evs), "pdf": data if st.viol_counts[sig] < 1 else b""},
                         gfx.fl(exp), obs, "glyph origins under a vertical (Identity-V, DW2/W2) font: " + ",".join(bad))
    return len(pages)


# colour spaces selected through /ColorSpace resource names: the page and the form it invokes give the SAME name to
# DIFFERENT spaces; sc takes as many operands as the space *this* resource dictionary gives the name (ISO 8.6.8, 7.8.3)
CS_SPACES = ["DeviceGray", "DeviceRGB", "DeviceCMYK"]
CS_COMPS = {"DeviceGray": (Fr(1, 4),), "DeviceRGB": (Fr(1, 4), Fr(1, 2), Fr(3, 4)), "DeviceCMYK": (0, Fr(1, 4), Fr(1, 2), 1)}
CS_COMPS2 = {"DeviceGray": (Fr(3, 4),), "DeviceRGB": (1, 0, Fr(1, 2)), "DeviceCMYK": (1, Fr(1, 2), 0, Fr(1, 4))}


def _cs_sc(space, comps=CS_COMPS):
    return b"/CS0 cs " + b" ".join(gfx._tok_operand(x)[0] for x in comps[space]) + b" sc "


def _fill_of(space, comps=CS_COMPS):
    c = comps[space]
    return (space, float(c[0]) if len(c) == 1 else tuple(float(x) for x in c))


def csres_pages(st):
    d = G.Doc()
    wset = WIDTH_SETS[0]
    fref = {k: d.add(font_dict(k, wset)) for k in ("A", "B")}
    fonts = {"F1": fref["A"], "F2": fref["B"]}
    show = lambda t: b"BT /F1 8 Tf (" + t + b") Tj ET "  # noqa: E731
    pages, exps, descs = [], [], []
    for X in CS_SPACES:
        for Y in CS_SPACES:
            form = d.add(G.Stream({"Type": G.N("XObject"), "Subtype": G.N("Form"), "BBox": [0, 0, 400, 400],
                                   "Resources": {"Font": fonts, "ColorSpace": {"CS0": G.N(Y)}}}, _cs_sc(Y, CS_COMPS2) + show(b"C")))
            res = {"Font": fonts, "XObject": {"Fm": form}, "ColorSpace": {"CS0": G.N(X)}}
            for where in ("do-first", "do-between-cs-and-sc", "do-after-sc", "do-twice"):
                if where == "do-first":
                    prog = b"/Fm Do " + _cs_sc(X) + show(b"A")
                elif where == "do-between-cs-and-sc":
                    prog = b"/CS0 cs /Fm Do " + _cs_sc(X)[len(b"/CS0 cs "):] + show(b"A")
                elif where == "do-after-sc":
                    prog = _cs_sc(X) + b"/Fm Do " + show(b"A")
                else:
                    prog = b"/Fm Do " + _cs_sc(X) + show(b"A") + b"/Fm Do " + _cs_sc(X, CS_COMPS2) + show(b"B")
                exp = [("C", _fill_of(Y, CS_COMPS2)), ("A", _fill_of(X))]
                if where == "do-after-sc":
                    exp = exp[::-1][:1] * 0 + [("C", _fill_of(Y, CS_COMPS2)), ("A", _fill_of(X))]
                if where == "do-twice":
                    exp = [("C", _fill_of(Y, CS_COMPS2)), ("A", _fill_of(X)), ("C", _fill_of(Y, CS_COMPS2)), ("B", _fill_of(X, CS_COMPS2))]
                pages.append((prog, res))
                exps.append(exp)
                descs.append({"page_CS0": X, "form_CS0": Y, "where": where})
                # the next page has no form and gives the name to yet another space: nothing of the previous page is left
                Z = CS_SPACES[(CS_SPACES.index(X) + 1) % 3]
                pages.append((_cs_sc(Z) + show(b"B"), {"Font": fonts, "ColorSpace": {"CS0": G.N(Z)}}))
                exps.append([("B", _fill_of(Z))])
                descs.append({"page_CS0": Z, "after": {"page_CS0": X, "form_CS0": Y, "where": where}})
    data = gfx.pages_doc(pages, doc=d)
    out = gfx.run_pages(data)
    st.traces += 1
    for exp, desc, (lt, exc) in zip(exps, descs, out):
        obs = [(o["text"], o["fill"]) for o in observe(lt)] if exc is None else gfx.exc_sig(exc)
        st.case(None, nontrivial=True, outcome=h64(repr(obs)))
        if obs != exp:
            sig = "C05/colour-space-resource-name:" + ("exception" if exc is not None else "after-form" if "after" in desc else desc["where"])
            st.violation(sig, {"family": "csres", "desc": desc, "pdf": data if st.viol_counts[sig] < 1 else b""}, [list(e) for e in exp], obs,
                         "fill colour of glyphs shown after '/CS0 cs ... sc' where page and form give /CS0 to different colour spaces")
    if len(out) != len(pages):
        st.violation("C05/csres:pages", {"family": "csres"}, len(pages), len(out), "page count")
    return len(pages)


def misc_shard(tier, st):
    n = misc_pages(st) + vert_pages(st) + csres_pages(st)
    st.states += n + 1
    st.transitions += n
    st.add("misc_pages", n)
    st.sample({"family": "misc", "vertical_page": gfx.program((("BT",), ("Tf", "/V1", 10), ("Tc", -2), V_SHOWS[1], ("ET",))),
               "form_without_matrix": gfx.program(FORMS["FmC"]["events"])})


def left_shard(tier, st):
    n = 0
    for k in (1, 2):
        for lo in itertools.product(LEFT_POOL, repeat=k):
            left_check(lo, st)
            n += 1
    st.states += n + 1
    st.transitions += n
    st.add("leftover_documents", n)
    st.sample({"family": "leftover", "page1": gfx.program(LEFT_PAGE1) + b" 30 40", "page2": gfx.program(left_page2(("Td",), False))})


def depth_of(tier, root, wset):
    b = BOUNDS[tier]
    return b["depth"][root] if wset == 0 else b["depth_wset1"]


def shards(tier):
    """prefix shards check depth <= shard_depth; one sub-shard per distinct state at shard_depth"""
    from mc.core import Stats

    b = BOUNDS[tier]
    out = [("same", r1, r2) for r1 in (0, 1) for r2 in (None, 0, 1)] + [("left", 0, 0)] + [("raw", i, 0) for i in range(len(RAW_PROGRAMS))] + [("misc", 0, 0)]
    for wset in b["wsets"]:
        for root in ROOTS:
            if wset != 0 and root != "text":
                continue
            sd = min(b["shard_depth"], depth_of(tier, root, wset))
            out.append(("pre", root, wset))
            if depth_of(tier, root, wset) > sd:
                res, _ = search(root, wset, tier, Stats(), max_depth=sd, collect=True, judge=False)
                for node in res["frontier"]:
                    out.append(("sub", root, wset, node.hist[len(ROOTS[root]):]))
    return out


def run_shard(shard, tier, st):
    b = BOUNDS[tier]
    kind, root, wset = shard[:3]
    if kind == "same":
        same_shard(shard, tier, st)
        return
    if kind == "left":
        left_shard(tier, st)
        return
    if kind == "raw":
        raw_shard(shard[1], tier, st)
        return
    if kind == "misc":
        misc_shard(tier, st)
        return
    if kind == "pre":
        sd = min(b["shard_depth"], depth_of(tier, root, wset))
        final = depth_of(tier, root, wset) <= sd
        res, ck = search(root, wset, tier, st, max_depth=sd, collect=not final)
        st.states += res["states"] + 1
        st.transitions += res["transitions"]
        st.sample({"root": root, "wset": wset, "program": gfx.program(ROOTS[root] + (("Tj", b"A B"),)) if root != "page" else b"BT /F1 8 Tf (A B) Tj ET"})
    else:
        prefix = tuple(gfx.ev_from_json(e) for e in shard[3])
        res, ck = search(root, wset, tier, st, prefix=prefix)
        st.states += res["states"]
        st.transitions += res["transitions"]
    st.add("real_runs_fast", ck.bench.runs)
    st.add("real_runs_complete_file", ck.bench.full_runs)


def jdec_events(v):
    from mc.core import jdec

    return jdec(v["case"]).get("events", [])


def replay(case):
    from mc.core import Stats, jdec

    if case.get("family") == "misc":
        st = Stats()
        misc_shard("quick", st)
        want = [gfx.ev_from_json(e) for e in case.get("events", [])]
        hits = [v for v in st.violations if [gfx.ev_from_json(e) for e in jdec_events(v)] == want] or st.violations
        return [{"signature": v["signature"], "expected": repr(v["expected"]), "observed": repr(v["observed"])} for v in hits[:1]]
    if case.get("family") == "csres":
        st = Stats()
        csres_pages(st)
        hits = [v for v in st.violations if jdec(v["case"]).get("desc") == case.get("desc")] or st.violations
        return [{"signature": v["signature"], "expected": repr(v["expected"]), "observed": repr(v["observed"])} for v in hits[:1]]
    if case.get("family") == "leftover":
        st = Stats()
        left_check(tuple(gfx.ev_from_json(e) for e in case["leftover"]) if isinstance(case["leftover"], (list, tuple)) else (), st)
        return [{"signature": v["signature"], "expected": repr(v["expected"]), "observed": repr(v["observed"])} for v in st.violations]
    if case.get("family") == "samename":
        st = Stats()
        pages = [(tuple(gfx.ev_from_json(e) for e in evs), r) for evs, r in case["pages"]]
        same_check(pages, st)
        return [{"signature": v["signature"], "expected": repr(v["expected"]), "observed": repr(v["observed"])} for v in st.violations]

    events = tuple(gfx.ev_from_json(e) for e in case["events"])
    wset = case["wset"]
    model = run_model(events, wset)
    bench = gfx.Bench(make_doc_fn(wset))
    streams = [bytes(s) for s in case["streams"]]
    if case.get("full"):
        lt, it, dev, exc, _ = bench.run_full(streams)
    else:
        lt, it, dev, exc = bench.run(streams)
    obs = observe(lt) if exc is None else []
    exp = list(model.out)
    bad = diff(exp, obs) if exc is None else ["exception"]
    if not bad:
        return []
    if len(streams) > 1 and any(x.endswith(b"ID") for x in streams[:-1]):
        sigs = ["C05/inline-image-ID-at-end-of-stream"]
    else:
        sigs = classify(events, wset, obs, exc)
    return [{"signature": sig, "expected": repr(gfx.fl(exp)), "observed": repr(obs if exc is None else gfx.exc_sig(exc))} for sig in sigs]
