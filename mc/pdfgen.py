"""Small PDF writer: object model -> bytes.  Independent of pdfminer.

Values:  None, bool, int, float/Fraction, Name, bytes (literal string), HexStr,
list, dict (str keys -> value), Ref, Raw (pre-serialised bytes), Stream.
"""
from __future__ import annotations

import struct
import zlib
from fractions import Fraction
from typing import Any, Dict, Iterable, List, Optional, Sequence, Tuple, Union


class Name:
    __slots__ = ("v",)

    def __init__(self, v: Union[str, bytes]):
        self.v = v.encode("utf-8") if isinstance(v, str) else bytes(v)

    def __repr__(self):
        return f"Name({self.v!r})"

    def __eq__(self, o):
        return isinstance(o, Name) and o.v == self.v

    def __hash__(self):
        return hash(("Name", self.v))


N = Name


class Ref:
    __slots__ = ("num", "gen")

    def __init__(self, num: int, gen: int = 0):
        self.num, self.gen = num, gen

    def __repr__(self):
        return f"Ref({self.num},{self.gen})"

    def __eq__(self, o):
        return isinstance(o, Ref) and (o.num, o.gen) == (self.num, self.gen)

    def __hash__(self):
        return hash(("Ref", self.num, self.gen))


class HexStr(bytes):
    pass


class Raw(bytes):
    pass


class _Drop:
    def __repr__(self):
        return "DROP"


DROP = _Drop()  # trailer_extra value meaning "omit this key"


class Stream:
    def __init__(self, d: Optional[Dict[str, Any]] = None, data: bytes = b"", length: Any = "auto", eol_after=b"\n", eol_before=b"\n"):
        self.d = dict(d or {})
        self.data = data
        self.length = length
        self.eol_after = eol_after
        self.eol_before = eol_before

    def __repr__(self):
        return f"Stream({self.d!r}, {len(self.data)} bytes)"


_REG = set(b"!\"$&'*+,-.0123456789:;=?@ABCDEFGHIJKLMNOPQRSTUVWXYZ\\^_`abcdefghijklmnopqrstuvwxyz|~")


def ser_name(v: bytes) -> bytes:
    out = bytearray(b"/")
    for c in v:
        if c in _REG and c != 0x23:
            out.append(c)
        else:
            out += b"#%02X" % c
    return bytes(out)


def fmt_num(x: Any) -> bytes:
    if isinstance(x, bool):
        raise TypeError
    if isinstance(x, int):
        return b"%d" % x
    if isinstance(x, Fraction):
        if x.denominator == 1:
            return b"%d" % x.numerator
        # exact finite decimal only for denominators 2^a 5^b
        d = x.denominator
        k = 0
        while d % 2 == 0:
            d //= 2
            k += 1
        m = 0
        while d % 5 == 0:
            d //= 5
            m += 1
        if d != 1:
            raise ValueError(f"not a finite decimal: {x}")
        digits = max(k, m)
        num = x.numerator * 10**digits // x.denominator
        s = "%d" % abs(num)
        s = s.rjust(digits + 1, "0")
        s = s[:-digits] + "." + s[-digits:]
        return (("-" if num < 0 else "") + s).encode()
    if isinstance(x, float):
        if x == int(x) and abs(x) < 1e15:
            return b"%d.0" % int(x)
        s = repr(x)
        if "e" in s or "E" in s:
            s = "%.10f" % x
        return s.encode()
    raise TypeError(type(x))


def ser_str(b: bytes) -> bytes:
    out = bytearray(b"(")
    for c in b:
        if c in (0x28, 0x29, 0x5C):
            out += b"\\" + bytes((c,))
        elif c == 0x0D:
            out += b"\\r"
        elif c == 0x0A:
            out += b"\\n"
        else:
            out.append(c)
    out += b")"
    return bytes(out)


def ser(o: Any) -> bytes:
    if o is None:
        return b"null"
    if o is True:
        return b"true"
    if o is False:
        return b"false"
    if isinstance(o, (int, float, Fraction)):
        return fmt_num(o)
    if isinstance(o, Name):
        return ser_name(o.v)
    if isinstance(o, Raw):
        return bytes(o)
    if isinstance(o, HexStr):
        return b"<" + bytes(o).hex().upper().encode() + b">"
    if isinstance(o, (bytes, bytearray)):
        return ser_str(bytes(o))
    if isinstance(o, Ref):
        return b"%d %d R" % (o.num, o.gen)
    if isinstance(o, (list, tuple)):
        return b"[" + b" ".join(ser(x) for x in o) + b"]"
    if isinstance(o, dict):
        return b"<<" + b" ".join(ser_name(k.encode("utf-8") if isinstance(k, str) else k) + b" " + ser(v) for k, v in o.items()) + b">>"
    if isinstance(o, Stream):
        return ser_stream(o)
    raise TypeError(f"cannot serialise {type(o)}")


def ser_stream(s: Stream) -> bytes:
    d = dict(s.d)
    if s.length == "auto":
        d["Length"] = len(s.data)
    elif s.length is not None:
        d["Length"] = s.length
    return ser(d) + b"\nstream" + s.eol_after + s.data + s.eol_before + b"endstream"


class Doc:
    """Collection of indirect objects; ``write`` lays them out."""

    def __init__(self, header: bytes = b"%PDF-1.7\n%\xe2\xe3\xcf\xd3\n"):
        self.header = header
        self.objs: Dict[int, Tuple[int, Any]] = {}
        self.next = 1

    def add(self, obj: Any, num: Optional[int] = None, gen: int = 0) -> Ref:
        if num is None:
            while self.next in self.objs:
                self.next += 1
            num = self.next
        self.objs[num] = (gen, obj)
        return Ref(num, gen)

    def reserve(self) -> Ref:
        return self.add(None)

    def set(self, ref: Ref, obj: Any) -> None:
        self.objs[ref.num] = (ref.gen, obj)

    # ---- serialisation
    def body(self, order: Optional[Sequence[int]] = None, start: int = 0, header: Optional[bytes] = None):
        out = bytearray(self.header if header is None else header)
        offs: Dict[int, Tuple[int, int]] = {}
        for num in order if order is not None else sorted(self.objs):
            gen, obj = self.objs[num]
            offs[num] = (start + len(out), gen)
            out += b"%d %d obj\n" % (num, gen) + ser(obj) + b"\nendobj\n"
        return bytes(out), offs

    def write(
        self,
        root: Ref,
        info: Optional[Ref] = None,
        trailer_extra: Optional[Dict[str, Any]] = None,
        xref: str = "table",
        objstm: Optional[Iterable[int]] = None,
        order: Optional[Sequence[int]] = None,
        mutate: Any = None,
    ) -> bytes:
        """``mutate(kind, stream)`` (kind 'objstm' | 'xrefstm') may edit the generated
        object stream / cross-reference stream in place before it is serialised."""
        tr: Dict[str, Any] = {}
        tr["Root"] = root
        if info is not None:
            tr["Info"] = info
        tr.update(trailer_extra or {})
        if any(v is DROP for v in tr.values()):
            tr = {k: v for k, v in tr.items() if v is not DROP}
        if xref == "table":
            body, offs = self.body(order)
            size = max(self.objs) + 1
            tr = {"Size": size, **tr}
            if any(v is DROP for v in tr.values()):
                tr = {k: v for k, v in tr.items() if v is not DROP}
            x = xref_table(offs)
            return body + x + b"trailer\n" + ser(tr) + b"\nstartxref\n%d\n%%%%EOF\n" % len(body)
        # xref stream, optionally with an object stream
        packed = sorted(set(objstm or ()))
        doc2 = Doc(self.header)
        for num, (gen, obj) in self.objs.items():
            if num not in packed:
                doc2.objs[num] = (gen, obj)
        entries: Dict[int, Tuple[int, int, int]] = {}
        if packed:
            osnum = max(self.objs) + 1
            parts, head = [], []
            off = 0
            for num in packed:
                b = ser(self.objs[num][1])
                head.append(b"%d %d" % (num, off))
                parts.append(b)
                off += len(b) + 1
            h = b" ".join(head) + b"\n"
            data = h + b"\n".join(parts) + b"\n"
            ostm = Stream({"Type": N("ObjStm"), "N": len(packed), "First": len(h)}, data)
            if mutate:
                mutate("objstm", ostm)
            doc2.objs[osnum] = (0, ostm)
            for i, num in enumerate(packed):
                entries[num] = (2, osnum, i)
        body, offs = doc2.body(order)
        for num, (o, g) in offs.items():
            entries[num] = (1, o, g)
        xnum = max(list(self.objs) + list(doc2.objs)) + 1
        entries[xnum] = (1, len(body), 0)
        entries[0] = (0, 0, 65535)
        size = xnum + 1
        sd = {"Type": N("XRef"), "Size": size, **tr}
        sd = {k: v for k, v in sd.items() if v is not DROP}
        xs = xref_stream_obj(entries, sd, W=(1, 4, 2))
        if mutate:
            mutate("xrefstm", xs)
        return body + b"%d 0 obj\n" % xnum + ser(xs) + b"\nendobj\nstartxref\n%d\n%%%%EOF\n" % len(body)


def xref_table(offs: Dict[int, Tuple[int, int]], eol: bytes = b" \n", free0: bool = True) -> bytes:
    """Classic table with one subsection per maximal run of consecutive numbers."""
    ent = dict(offs)
    nums = sorted(ent)
    out = bytearray(b"xref\n")
    runs: List[List[int]] = []
    if free0 and 0 not in ent:
        runs.append([0])
    for n in nums:
        if runs and runs[-1][-1] == n - 1:
            runs[-1].append(n)
        else:
            runs.append([n])
    for r in runs:
        out += b"%d %d\n" % (r[0], len(r))
        for n in r:
            if n in ent:
                o, g = ent[n]
                out += b"%010d %05d n" % (o, g) + eol
            else:
                out += b"%010d %05d f" % (0, 65535) + eol
    return bytes(out)


def xref_stream_obj(entries: Dict[int, Tuple[int, int, int]], d: Dict[str, Any], W=(1, 4, 2), index: str = "auto", flate: bool = False) -> Stream:
    nums = sorted(entries)
    runs: List[List[int]] = []
    for n in nums:
        if runs and runs[-1][-1] == n - 1:
            runs[-1].append(n)
        else:
            runs.append([n])
    data = bytearray()
    for n in nums:
        t, a, b = entries[n]
        for val, w in zip((t, a, b), W):
            if w:
                data += val.to_bytes(w, "big")
    dd = dict(d)
    dd["W"] = list(W)
    idx: List[int] = []
    for r in runs:
        idx += [r[0], len(r)]
    if not (index == "auto" and idx == [0, dd.get("Size")]):
        dd["Index"] = idx
    payload = bytes(data)
    if flate:
        payload = zlib.compress(payload)
        dd["Filter"] = N("FlateDecode")
    return Stream(dd, payload)


# ------------------------------------------------------------ document helpers
def type1_font(base: str = "Helvetica", **extra: Any) -> Dict[str, Any]:
    return {"Type": N("Font"), "Subtype": N("Type1"), "BaseFont": N(base), **extra}


def widths_font(name: str, firstchar: int, widths: Sequence[int], encoding: Any = None, **extra: Any) -> Dict[str, Any]:
    """A non-standard-14 Type1 font whose metrics come only from Widths."""
    d = {
        "Type": N("Font"),
        "Subtype": N("Type1"),
        "BaseFont": N(name),
        "FirstChar": firstchar,
        "LastChar": firstchar + len(widths) - 1,
        "Widths": list(widths),
        "FontDescriptor": {
            "Type": N("FontDescriptor"),
            "FontName": N(name),
            "Flags": 32,
            "FontBBox": [0, -200, 1000, 800],
            "Ascent": 800,
            "Descent": -200,
            "ItalicAngle": 0,
            "CapHeight": 700,
            "StemV": 80,
        },
    }
    if encoding is not None:
        d["Encoding"] = encoding
    d.update(extra)
    return d


def page_doc(
    contents: Union[bytes, Sequence[bytes]],
    fonts: Optional[Dict[str, Any]] = None,
    mediabox: Sequence[Any] = (0, 0, 612, 792),
    resources_extra: Optional[Dict[str, Any]] = None,
    page_extra: Optional[Dict[str, Any]] = None,
    xref: str = "table",
    catalog_extra: Optional[Dict[str, Any]] = None,
    doc: Optional[Doc] = None,
    trailer_extra: Optional[Dict[str, Any]] = None,
) -> bytes:
    """One-page document.  ``fonts`` maps resource name -> font dict (made indirect)."""
    d = doc or Doc()
    cat = d.reserve()
    pages = d.reserve()
    page = d.reserve()
    if isinstance(contents, (bytes, bytearray)):
        cref: Any = d.add(Stream({}, bytes(contents)))
    else:
        cref = [d.add(Stream({}, bytes(c))) for c in contents]
    res: Dict[str, Any] = {}
    if fonts:
        res["Font"] = {k: (v if isinstance(v, Ref) else d.add(v)) for k, v in fonts.items()}
    res.update(resources_extra or {})
    d.set(cat, {"Type": N("Catalog"), "Pages": pages, **(catalog_extra or {})})
    d.set(pages, {"Type": N("Pages"), "Kids": [page], "Count": 1})
    d.set(page, {"Type": N("Page"), "Parent": pages, "MediaBox": list(mediabox), "Resources": res, "Contents": cref, **(page_extra or {})})
    return d.write(cat, xref=xref, trailer_extra=trailer_extra)


def tounicode_cmap(bfchars: Sequence[Tuple[bytes, str]] = (), bfranges: Sequence[Tuple[bytes, bytes, Any]] = (), codespace: Sequence[Tuple[bytes, bytes]] = ((b"\x00", b"\xff"),)) -> bytes:
    def hx(b: bytes) -> bytes:
        return b"<" + b.hex().upper().encode() + b">"

    def u(s: str) -> bytes:
        return hx(s.encode("utf-16-be"))

    out = bytearray(
        b"/CIDInit /ProcSet findresource begin\n12 dict begin\nbegincmap\n"
        b"/CIDSystemInfo << /Registry (Adobe) /Ordering (UCS) /Supplement 0 >> def\n"
        b"/CMapName /Adobe-Identity-UCS def\n/CMapType 2 def\n"
    )
    out += b"%d begincodespacerange\n" % len(codespace)
    for a, b in codespace:
        out += hx(a) + b" " + hx(b) + b"\n"
    out += b"endcodespacerange\n"
    if bfchars:
        out += b"%d beginbfchar\n" % len(bfchars)
        for c, s in bfchars:
            out += hx(c) + b" " + u(s) + b"\n"
        out += b"endbfchar\n"
    if bfranges:
        out += b"%d beginbfrange\n" % len(bfranges)
        for a, b, t in bfranges:
            if isinstance(t, (list, tuple)):
                out += hx(a) + b" " + hx(b) + b" [" + b" ".join(u(x) for x in t) + b"]\n"
            else:
                out += hx(a) + b" " + hx(b) + b" " + u(t) + b"\n"
        out += b"endbfrange\n"
    out += b"endcmap\nCMapName currentdict /CMap defineresource pop\nend\nend\n"
    return bytes(out)
