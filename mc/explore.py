"""Bounded exhaustive explorers.

Three enumeration engines, all deterministic, none sampling:

* ``ChoiceExplorer`` -- a generator program asks ``x.choose(n, label)``; the
  explorer enumerates *all* choice vectors (``mode='full'``) or every vector
  that departs from the default choice (index 0) in at most ``k`` positions
  (``mode='dev'``), each execution run to completion.  Nodes of the choice tree
  are counted as states, edges as transitions, complete root-leaf paths as
  traces.
* ``bfs`` -- explicit-state breadth-first search.  A state is the event history
  reaching it; it is rebuilt by replaying the history on fresh real objects
  (``build``); ``canon`` gives the canonical form used for deduplication.
* ``product`` helpers for plain Cartesian enumeration with node accounting.
"""
from __future__ import annotations

import collections
import itertools
from typing import Any, Callable, Iterable, Iterator, List, Optional, Sequence, Tuple


class Abort(Exception):
    """Raised by a generator to discard the current choice vector (not a case)."""


class Chooser:
    """Handed to the generator program; replays a prefix, then takes default 0."""

    __slots__ = ("prefix", "choices", "arity", "labels")

    def __init__(self, prefix: Sequence[int]):
        self.prefix = prefix
        self.choices: List[int] = []
        self.arity: List[int] = []
        self.labels: List[str] = []

    def choose(self, n: int, label: str = "") -> int:
        if n <= 0:
            raise ValueError("choose() needs n >= 1")
        i = len(self.choices)
        if i < len(self.prefix):
            c = self.prefix[i]
            if c >= n:
                # replaying a prefix must never diverge: hard harness error
                raise RuntimeError(
                    f"choice prefix diverged at {i}: {c} >= {n} ({label})"
                )
        else:
            c = 0
        self.choices.append(c)
        self.arity.append(n)
        self.labels.append(label)
        return c

    def pick(self, seq: Sequence[Any], label: str = "") -> Any:
        return seq[self.choose(len(seq), label)]

    def flag(self, label: str = "") -> bool:
        return bool(self.choose(2, label))

    def deviations(self) -> int:
        return sum(1 for c in self.choices if c)


class ChoiceExplorer:
    """Enumerate executions of ``program(chooser) -> case``.

    ``mode='full'``: every choice vector.  ``mode='dev'``: every vector with at
    most ``bound`` non-default choices.  ``visit(case, chooser)`` is called for
    every complete execution.
    """

    def __init__(self, program: Callable[[Chooser], Any], mode: str = "full", bound: int = 0):
        self.program = program
        self.mode = mode
        self.bound = bound
        self.states = 1  # root
        self.transitions = 0
        self.traces = 0
        self.aborted = 0
        self.max_depth = 0

    def _run(self, prefix: Sequence[int]) -> Tuple[Optional[Any], Chooser]:
        x = Chooser(prefix)
        try:
            case = self.program(x)
            ok = True
        except Abort:
            case, ok = None, False
        if len(x.choices) < len(prefix):
            raise RuntimeError("choice prefix longer than execution: nondeterministic generator")
        new_edges = len(x.choices) - max(len(prefix) - 1, 0) if prefix else len(x.choices)
        self.transitions += new_edges
        self.states += new_edges
        self.max_depth = max(self.max_depth, len(x.choices))
        if ok:
            self.traces += 1
        else:
            self.aborted += 1
        return (case if ok else None), x

    def run(self) -> Iterator[Tuple[Any, Chooser]]:
        stack: List[Tuple[int, ...]] = [()]
        while stack:
            prefix = stack.pop()
            case, x = self._run(prefix)
            if case is not None:
                yield case, x
            # children: alternatives at every point after the prefix
            kids = []
            used = sum(1 for c in x.choices[: len(prefix)] if c)
            for i in range(len(prefix), len(x.choices)):
                if self.mode == "dev" and used + 1 > self.bound:
                    break
                for alt in range(1, x.arity[i]):
                    kids.append(tuple(x.choices[:i]) + (alt,))
                # staying on default at i costs nothing
            # reversed so that simplest-first order is kept by the LIFO stack
            stack.extend(reversed(kids))


def bfs(
    init_events: Sequence[Any],
    enabled: Callable[[Any, Tuple[Any, ...]], Iterable[Any]],
    build: Callable[[Tuple[Any, ...]], Any],
    canon: Callable[[Any], Any],
    check: Callable[[Any, Tuple[Any, ...]], None],
    max_depth: int,
    dedup: bool = True,
):
    """Explicit-state BFS on the real transition function.

    ``build(history)`` replays the history on fresh real objects and returns the
    live state; ``enabled(state, history)`` lists events; ``check(state,
    history)`` evaluates the oracle (it records violations itself).  Returns a
    dict of counters.
    """
    root = tuple(init_events)
    st = build(root)
    check(st, root)
    seen = {canon(st)}
    frontier = collections.deque([root])
    transitions = 0
    depth_hist = collections.Counter({0: 1})
    maxd = 0
    frontier_left = 0
    while frontier:
        hist = frontier.popleft()
        d = len(hist) - len(root)
        if d >= max_depth:
            frontier_left += 1
            continue
        st = build(hist)
        for ev in enabled(st, hist):
            h2 = hist + (ev,)
            nxt = build(h2)
            transitions += 1
            check(nxt, h2)
            k = canon(nxt)
            if (not dedup) or k not in seen:
                seen.add(k)
                frontier.append(h2)
                depth_hist[d + 1] += 1
                maxd = max(maxd, d + 1)
    return {
        "states": len(seen),
        "transitions": transitions,
        "max_depth": maxd,
        "states_per_depth": dict(depth_hist),
        "frontier_at_bound": frontier_left,
    }


def all_strings(alphabet: Sequence[Any], maxlen: int, minlen: int = 0) -> Iterator[Tuple[Any, ...]]:
    for n in range(minlen, maxlen + 1):
        yield from itertools.product(alphabet, repeat=n)


def ordered_trees(n: int) -> Iterator[Tuple]:
    """All ordered rooted trees with exactly n nodes, as nested tuples of children."""
    if n == 1:
        yield ()
        return
    for forest in ordered_forests(n - 1):
        yield forest


def ordered_forests(n: int) -> Iterator[Tuple]:
    """All ordered forests with exactly n nodes (n >= 0)."""
    if n == 0:
        yield ()
        return
    for first in range(1, n + 1):
        for t in ordered_trees(first):
            for rest in ordered_forests(n - first):
                yield (t,) + rest
