"""Regenerate the generated part of DESIGN.md (section 7 tables) from known_findings.json,
seeded/RESULTS.json, evidence/*.json and the property modules:  python mc/report.py
Everything between the markers <!-- BEGIN GENERATED --> and <!-- END GENERATED --> is replaced."""
import importlib
import json
import os
import sys

ROOT = os.path.dirname(os.path.dirname(os.path.abspath(__file__)))
sys.path.insert(0, ROOT)
from mc.core import PROPS, bind_repo  # noqa

bind_repo()
out = []
ready = [l.strip() for l in open(os.path.join(ROOT, "READY")) if l.strip()]

out.append("### 7.1 Checks as built (numbers from the committed quick-tier evidence)\n")
out.append("| Prop | module | level | evaluations | distinct non-trivial | states | transitions | traces vs impl | distinct outcomes | bound completed (quick) |")
out.append("|---|---|---|---|---|---|---|---|---|---|")
for pid in sorted(PROPS):
    if pid not in ready:
        continue
    ev_path = os.path.join(ROOT, "evidence", pid + ".json")
    mod = importlib.import_module(PROPS[pid])
    if os.path.exists(ev_path):
        e = json.load(open(ev_path))
        c = e["coverage"]
        out.append(f"| {pid} | `{PROPS[pid].replace('.', '/')}.py` | {e['level']} | {c['evaluations']} | {c['distinct_nontrivial']} | {c['states']} | {c['transitions']} | "
                   f"{c['traces_validated_against_impl']} | {c.get('distinct_outcomes','')} | {str(mod.META['bound']['quick'])[:160]} |")
out.append("")

kf = json.load(open(os.path.join(ROOT, "known_findings.json")))["findings"]
out.append("### 7.2 Genuine defects repaired (one `fix:` commit each in /repo; a `fixed` entry suppresses nothing)\n")
out.append("| Prop | signature the check reported | commit | what failed |")
out.append("|---|---|---|---|")
for f in kf:
    if f["status"] == "fixed":
        what = f["what"].split(f.get("commit", "") + " ", 1)[-1]
        out.append(f"| {f['property']} | `{f['signature']}` | {f.get('commit','')} | {what} |")
out.append("")
out.append("### 7.3 Genuine defects recorded as known findings (check prints KNOWN-FINDING and exits 0; any other signature is a VIOLATION)\n")
out.append("| Prop | signature | what fails and why it is not repaired | witness |")
out.append("|---|---|---|---|")
for f in kf:
    if f["status"] == "known":
        out.append(f"| {f['property']} | `{f['signature']}` | {f['what']} | {f.get('witness','')} |")
out.append("")

rp = os.path.join(ROOT, "seeded", "RESULTS.json")
if os.path.exists(rp):
    res = json.load(open(rp))
    out.append("### 7.4 Seeded defects (written by independent sub-agents that saw only the property text) and which checks catch them\n")
    out.append("Each was confirmed here: repository suite passes with the patch, demo fails with it and passes without (`mutants/seeded.py --confirm`).\n")
    out.append("| id | property | what was changed / what it needs | suite | demo (clean/patched) | caught by (quick tier) |")
    out.append("|---|---|---|---|---|---|")
    for sid in sorted(res):
        r = res[sid]
        mp = os.path.join(ROOT, "seeded", sid, "meta.json")
        meta = json.load(open(mp)) if os.path.exists(mp) else {}
        verd = ", ".join(f"{p}: {c['verdict']}" for p, c in sorted(r.get("checks", {}).items()))
        summ = (meta.get("summary", "") + " — needs: " + meta.get("needs", "")).replace("|", "/").replace("\n", " ")[:420]
        out.append(f"| {sid} | {r.get('property')} | {summ} | {'pass' if r.get('tests_rc') == 0 else r.get('tests_rc')} | {r.get('demo_clean_rc')}/{r.get('demo_patched_rc')} | {verd} |")
    out.append("")

txt = "\n".join(out)
p = os.path.join(ROOT, "DESIGN.md")
s = open(p).read()
B, E = "<!-- BEGIN GENERATED -->", "<!-- END GENERATED -->"
if B in s:
    s = s[: s.index(B) + len(B)] + "\n" + txt + "\n" + s[s.index(E):]
else:
    s += "\n" + B + "\n" + txt + "\n" + E + "\n"
open(p, "w").write(s)
print("DESIGN.md generated part:", len(txt), "bytes")
