"""Runner: shards -> 16 workers -> merge -> findings -> evidence -> exit code."""
from __future__ import annotations

import argparse
import base64
import collections
import hashlib
import importlib
import json
import multiprocessing as mp
import os
import random
import struct
import subprocess
import sys
import time
import traceback
from typing import Any, Dict, List, Optional

ROOT = os.path.dirname(os.path.dirname(os.path.abspath(__file__)))
REPO = os.environ.get("VERIF_REPO", "/repo")
# where evidence/ and replays/ are written (mutant runs point this at a scratch dir)
OUT = os.environ.get("VERIF_OUT_DIR", ROOT)

PROPS = {
    "C01": "props.c01_syntax",
    "C02": "props.c02_xref",
    "C03": "props.c03_filters",
    "C04": "props.c04_pagetree",
    "C05": "props.c05_text",
    "C06": "props.c06_simplefont",
    "C07": "props.c07_cidfont",
    "C08": "props.c08_layout_conserve",
    "C09": "props.c09_layout_margins",
    "C10": "props.c10_crypt",
    "C11": "props.c11_converters",
    "C12": "props.c12_purity",
    "C13": "props.c13_faults",
    "C14": "props.c14_tokenizer",
    "C15": "props.c15_confine",
    "C16": "props.c16_paths",
    "C17": "props.c17_trees",
    "C18": "props.c18_images",
    "C19": "props.c19_ccitt",
    "C20": "props.c20_geometry",
}


def bind_repo() -> None:
    """Make ``import pdfminer`` read $VERIF_REPO's working tree and prove it."""
    os.environ.setdefault("PYTHONHASHSEED", "0")
    if REPO not in sys.path:
        sys.path.insert(0, REPO)
    import logging

    logging.disable(logging.CRITICAL)
    import pdfminer  # noqa

    f = os.path.realpath(pdfminer.__file__)
    if not f.startswith(os.path.realpath(REPO) + os.sep):
        print(f"HARNESS-ERROR pdfminer imported from {f}, not {REPO}", flush=True)
        sys.exit(2)


# ---------------------------------------------------------------- json helpers
def jenc(o: Any) -> Any:
    """JSON-safe encoding that keeps bytes/tuples/fractions recoverable."""
    from fractions import Fraction

    if isinstance(o, (bytes, bytearray)):
        return {"$b": base64.b64encode(bytes(o)).decode()}
    if isinstance(o, tuple):
        return {"$t": [jenc(x) for x in o]}
    if isinstance(o, list):
        return [jenc(x) for x in o]
    if isinstance(o, (set, frozenset)):
        return {"$s": sorted((jenc(x) for x in o), key=repr)}
    if isinstance(o, dict):
        if all(isinstance(k, str) and not k.startswith("$") for k in o):
            return {k: jenc(v) for k, v in o.items()}
        return {"$d": [[jenc(k), jenc(v)] for k, v in o.items()]}
    if isinstance(o, Fraction):
        return {"$q": [o.numerator, o.denominator]}
    if isinstance(o, float):
        if o != o or o in (float("inf"), float("-inf")):
            return {"$f": repr(o)}
        return o
    if o is None or isinstance(o, (bool, int, str)):
        return o
    return {"$r": repr(o)}


def jdec(o: Any) -> Any:
    from fractions import Fraction

    if isinstance(o, list):
        return [jdec(x) for x in o]
    if isinstance(o, dict):
        if len(o) == 1:
            ((k, v),) = o.items()
            if k == "$b":
                return base64.b64decode(v)
            if k == "$t":
                return tuple(jdec(x) for x in v)
            if k == "$s":
                return frozenset(jdec(x) for x in v)
            if k == "$d":
                return {jdec(a): jdec(b) for a, b in v}
            if k == "$q":
                return Fraction(v[0], v[1])
            if k == "$f":
                return float(v)
            if k == "$r":
                return v
        return {k: jdec(v) for k, v in o.items()}
    return o


def h64(*parts: Any) -> int:
    m = hashlib.blake2b(digest_size=8)
    for p in parts:
        if isinstance(p, (bytes, bytearray)):
            m.update(bytes(p))
        else:
            m.update(repr(p).encode())
        m.update(b"\x1f")
    return struct.unpack("<Q", m.digest())[0]


# ---------------------------------------------------------------------- stats
class Stats:
    """Per-shard accounting, merged by the parent."""

    MAX_VIOL_PER_SIG = 3
    MAX_SAMPLES = 4

    def __init__(self) -> None:
        self.evaluations = 0
        self.states = 0
        self.transitions = 0
        self.traces = 0
        self.nontrivial: set = set()
        self.nt_count = 0  # non-trivial cases that are distinct by construction (enumerated once)
        self.outcomes: collections.Counter = collections.Counter()
        self.samples: List[Any] = []
        self.violations: List[Dict[str, Any]] = []
        self.viol_counts: collections.Counter = collections.Counter()
        self.caps: List[str] = []
        self.extra: Dict[str, Any] = {}
        self.not_judged: collections.Counter = collections.Counter()

    def case(self, key: Any = None, nontrivial: bool = True, outcome: Any = None, n: int = 1) -> None:
        self.evaluations += n
        if nontrivial:
            if key is None:
                self.nt_count += n
            else:
                self.nontrivial.add(key if isinstance(key, int) else h64(key))
        if outcome is not None:
            self.outcomes[outcome if isinstance(outcome, int) else h64(outcome)] += 1

    def sample(self, s: Any) -> None:
        if len(self.samples) < self.MAX_SAMPLES:
            self.samples.append(jenc(s))

    def violation(self, signature: str, case: Dict[str, Any], expected: Any, observed: Any, what: str = "") -> None:
        self.viol_counts[signature] += 1
        if self.viol_counts[signature] <= self.MAX_VIOL_PER_SIG:
            self.violations.append(
                {
                    "signature": signature,
                    "case": jenc(case),
                    "expected": jenc(expected),
                    "observed": jenc(observed),
                    "what": what,
                }
            )

    def add(self, k: str, n: int = 1) -> None:
        self.extra[k] = self.extra.get(k, 0) + n

    def pack(self) -> Dict[str, Any]:
        nt = sorted(self.nontrivial)
        return {
            "evaluations": self.evaluations,
            "states": self.states,
            "transitions": self.transitions,
            "traces": self.traces,
            "nontrivial": struct.pack(f"<{len(nt)}Q", *nt),
            "nt_count": self.nt_count,
            "outcomes": dict(self.outcomes),
            "samples": self.samples,
            "violations": self.violations,
            "viol_counts": dict(self.viol_counts),
            "caps": self.caps,
            "extra": self.extra,
            "not_judged": dict(self.not_judged),
        }


def _worker(args):
    modname, shard, tier = args
    mod = importlib.import_module(modname)
    st = Stats()
    t0 = time.time()
    try:
        mod.run_shard(shard, tier, st)
    except BaseException as e:  # harness error, not a property verdict
        return {"harness_error": f"shard {shard!r}: {type(e).__name__}: {e}\n{traceback.format_exc()}"}
    d = st.pack()
    for v in d["violations"]:
        v["shard"] = jenc(shard)
    d["shard"] = repr(shard)[:120]
    d["wall"] = time.time() - t0
    return d


# ------------------------------------------------------------------- findings
def load_findings(pid: str) -> List[Dict[str, Any]]:
    p = os.path.join(ROOT, "known_findings.json")
    if not os.path.exists(p):
        return []
    with open(p) as f:
        data = json.load(f)
    return [e for e in data.get("findings", []) if e.get("property") == pid]


# --------------------------------------------------------------------- runner
def write_evidence(pid, tier, seed, level, coverage, assumptions, wall, nviol):
    os.makedirs(os.path.join(OUT, "evidence"), exist_ok=True)
    ev = {
        "property_id": pid,
        "tier": tier,
        "seed": seed,
        "level": level,
        "coverage": coverage,
        "assumptions": assumptions,
        "wall_s": round(wall, 2),
        "violations": nviol,
    }
    validate_evidence(ev)
    path = os.path.join(OUT, "evidence", f"{pid}.json")
    tmp = path + ".tmp"
    with open(tmp, "w") as f:
        json.dump(ev, f, indent=1, sort_keys=True)
    os.replace(tmp, path)


def validate_evidence(ev: Dict[str, Any]) -> None:
    """Minimal structural check mirroring EVIDENCE.schema.json (jsonschema is not in /venv)."""
    for k in ("property_id", "tier", "seed", "level", "coverage", "wall_s"):
        assert k in ev, k
    cov = ev["coverage"]
    if ev["level"] == "model_checking":
        for k in ("states", "transitions", "traces_validated_against_impl", "samples"):
            assert k in cov, k
        assert cov["states"] >= 1 and cov["transitions"] >= 1 and len(cov["samples"]) >= 1
    else:
        for k in ("evaluations", "distinct_nontrivial", "rule", "samples"):
            assert k in cov, k
        assert cov["evaluations"] >= 1 and cov["distinct_nontrivial"] >= 2 and len(cov["samples"]) >= 1


def main(argv: Optional[List[str]] = None) -> int:
    ap = argparse.ArgumentParser()
    ap.add_argument("prop")
    ap.add_argument("--tier", default=os.environ.get("VERIF_TIER", "quick"), choices=["quick", "thorough"])
    ap.add_argument("--replay")
    ap.add_argument("--shard-only", action="store_true", help="(internal) replay: skip the single case, re-run its whole shard")
    ap.add_argument("--jobs", type=int, default=int(os.environ.get("VERIF_JOBS", "16")))
    ap.add_argument("--only", help="substring filter on shard repr (debugging; evidence marked partial)")
    a = ap.parse_args(argv)
    pid = a.prop.upper()
    if pid not in PROPS:
        print(f"unknown property {pid}")
        return 2
    try:
        seed = int(os.environ.get("VERIF_SEED", "0"))
    except ValueError:
        seed = 0
    sys.path.insert(0, ROOT)
    bind_repo()
    mod = importlib.import_module(PROPS[pid])

    if a.replay:
        with open(a.replay) as f:
            art = json.load(f)
        case = jdec(art["case"])
        res = [] if a.shard_only else mod.replay(case)
        if not a.shard_only:
            print("case:", json.dumps(art["case"])[:2000])
        if not res and "shard" in art and not a.shard_only:
            # the single case left its own traces in this process (caches, interned tables): the call history of the
            # shard must be replayed in yet another fresh process
            p = subprocess.run([sys.executable, os.path.abspath(__file__), pid, "--replay", a.replay, "--shard-only"], env={**os.environ, "PYTHONHASHSEED": "0"})
            return p.returncode
        if not res and "shard" in art:
            # history-dependent violation: re-run the whole shard (its call history) in this fresh process
            st = Stats()
            shard = jdec(art["shard"])
            # the worker that found it was forked from a parent that had already enumerated the shards:
            # recreate that inherited process state before running the shard
            list(mod.shards(art.get("tier", a.tier)))
            mod.run_shard(shard, art.get("tier", a.tier), st)
            res = [
                {"signature": v["signature"], "expected": v["expected"], "observed": v["observed"]}
                for v in st.violations
                if v["signature"] == art["signature"]
            ][:1]
            if res:
                print(f"(reproduced only by replaying the whole shard {shard!r}: the violation depends on the call history)")
        if res:
            for v in res:
                print("signature:", v["signature"])
                print("expected:", json.dumps(v["expected"])[:2000])
                print("observed:", json.dumps(v["observed"])[:2000])
            print(f"REPRODUCED property={pid} n={len(res)}")
            return 1
        print(f"NOT-REPRODUCED property={pid}")
        return 0

    t0 = time.time()
    shards = list(mod.shards(a.tier))
    if a.only:
        shards = [s for s in shards if a.only in repr(s)]
    # VERIF_SEED permutes only the visiting order; the explored set is fixed.
    random.Random(seed).shuffle(shards)
    deadline = t0 + (getattr(mod, "DEADLINE", {}).get(a.tier) or (1500 if a.tier == "quick" else 4 * 3600))
    tot = collections.Counter()
    nontriv: set = set()
    outcomes: collections.Counter = collections.Counter()
    samples: List[Any] = []
    viols: List[Dict[str, Any]] = []
    viol_counts: collections.Counter = collections.Counter()
    caps: List[str] = []
    extra: Dict[str, Any] = {}
    not_judged: collections.Counter = collections.Counter()
    ctx = mp.get_context("fork")
    jobs = max(1, min(a.jobs, len(shards)))
    work = [(PROPS[pid], s, a.tier) for s in shards]
    harness_error = None
    # one fresh (forked) process per shard: a shard's call history is exactly the shard itself,
    # so a history-dependent violation can be replayed by re-running its shard in a fresh process
    pool = ctx.Pool(jobs, maxtasksperchild=getattr(mod, "MAXTASKS", 1))
    try:
        it = pool.imap_unordered(_worker, work, chunksize=1)
        done = 0
        while done < len(work):
            try:
                r = it.next(timeout=max(1.0, deadline - time.time()))
            except mp.TimeoutError:
                harness_error = f"deadline exceeded after {time.time()-t0:.0f}s ({done}/{len(work)} shards)"
                break
            done += 1
            if "harness_error" in r:
                harness_error = r["harness_error"]
                break
            for k in ("evaluations", "states", "transitions", "traces", "nt_count"):
                tot[k] += r[k]
            b = r["nontrivial"]
            nontriv.update(struct.unpack(f"<{len(b)//8}Q", b))
            outcomes.update(r["outcomes"])
            for s in r["samples"]:
                if len(samples) < 6:
                    samples.append(s)
            viols.extend(r["violations"])
            viol_counts.update(r["viol_counts"])
            caps.extend(r["caps"])
            not_judged.update(r["not_judged"])
            for k, v in r["extra"].items():
                if isinstance(v, (int, float)):
                    extra[k] = extra.get(k, 0) + v
                else:
                    extra.setdefault(k, v)
    finally:
        pool.terminate()
        pool.join()
    if harness_error:
        print(f"HARNESS-ERROR property={pid} {harness_error}", flush=True)
        return 2

    # ---- classify violations against the committed known-findings file
    known = {e["signature"]: e for e in load_findings(pid) if e.get("status") == "known"}
    by_sig: Dict[str, Dict[str, Any]] = {}
    for v in sorted(viols, key=lambda v: (len(json.dumps(v["case"])), json.dumps(v["case"], sort_keys=True))):
        by_sig.setdefault(v["signature"], v)
    new_sigs = [s for s in by_sig if s not in known]
    rc = 0
    unreproduced: List[Any] = []
    os.makedirs(os.path.join(OUT, "replays", pid), exist_ok=True)
    for sig in sorted(by_sig):
        v = by_sig[sig]
        if sig in known:
            print(f"KNOWN-FINDING: property={pid} {sig}: {known[sig].get('what','')} (cases={viol_counts[sig]})")
            continue
        art = {"property": pid, **v, "count": viol_counts[sig], "tier": a.tier}
        sha = hashlib.sha1(json.dumps(art["case"], sort_keys=True).encode()).hexdigest()[:12]
        path = os.path.join(OUT, "replays", pid, f"{sha}.json")
        with open(path, "w") as f:
            json.dump(art, f, indent=1, sort_keys=True)
        # every violation is re-executed from its artefact in a fresh process
        if new_sigs.index(sig) < 8 and os.environ.get("VERIF_NO_RECHECK") != "1":
            p = subprocess.run(
                [sys.executable, os.path.join(ROOT, "mc", "core.py"), pid, "--replay", path],
                capture_output=True,
                text=True,
                env={**os.environ, "PYTHONHASHSEED": "0"},
            )
            if p.returncode != 1:
                # not reported as a violation: a failure that a fresh process cannot repeat from its artefact is not believed
                unreproduced.append((path, p.returncode, p.stdout[-2000:] + p.stderr[-2000:]))
                continue
        print(f"VIOLATION property={pid} replay={path}  # {sig} (cases={viol_counts[sig]}) {v['what']}")
        rc = 1
    for path, prc, tail in unreproduced:
        print(f"{'UNREPRODUCED' if rc else 'HARNESS-ERROR'} property={pid} replay of {path} did not reproduce (rc={prc})")
        if not rc:
            print(tail)
    if unreproduced and not rc:
        return 2  # nothing reproducible was found, yet something was observed: the harness, not the code, is in doubt

    meta = mod.META
    coverage = {
        "evaluations": tot["evaluations"],
        "distinct_nontrivial": len(nontriv) + tot["nt_count"],
        "rule": meta["rule"],
        "samples": samples,
        "states": tot["states"],
        "transitions": tot["transitions"],
        "traces_validated_against_impl": tot["traces"],
        "distinct_outcomes": len(outcomes),
        "exhaustive": not caps and not a.only,
        "bound_completed": meta["bound"][a.tier],
        "caps_hit": sorted(set(caps)),
        "shards": len(shards),
        "violation_signatures": {k: viol_counts[k] for k in sorted(viol_counts)},
        "not_judged": dict(not_judged),
        **{k: v for k, v in extra.items()},
    }
    if a.only:
        coverage["partial_filter"] = a.only
    write_evidence(
        pid, a.tier, seed, mod.LEVEL, coverage, meta["assumptions"], time.time() - t0,
        sum(viol_counts[s] for s in new_sigs),
    )
    print(
        f"{pid} {a.tier}: evaluations={tot['evaluations']} nontrivial={len(nontriv)+tot['nt_count']} states={tot['states']} "
        f"transitions={tot['transitions']} traces={tot['traces']} outcomes={len(outcomes)} "
        f"known={len(by_sig)-len(new_sigs)} new={len(new_sigs)} wall={time.time()-t0:.1f}s"
    )
    return rc


if __name__ == "__main__":
    sys.exit(main())
