"""Regenerate MANIFEST.json from the property modules that exist (python mc/manifest.py)."""
import importlib, json, os, sys
ROOT = os.path.dirname(os.path.dirname(os.path.abspath(__file__)))
sys.path.insert(0, ROOT)
from mc.core import PROPS, bind_repo
bind_repo()
NOT_YET = "check not built yet in this session; the design in DESIGN.md applies bounded exhaustive exploration to it"
# properties whose check is finished, silent on the unchanged tree, and committed
READY = [l.strip() for l in open(os.path.join(ROOT, "READY")) if l.strip()]
checks, na = [], []
for pid, modname in sorted(PROPS.items()):
    path = os.path.join(ROOT, modname.replace(".", "/") + ".py")
    if not os.path.exists(path) or pid not in READY:
        na.append({"property_id": pid, "reason": NOT_YET})
        continue
    mod = importlib.import_module(modname)
    m = mod.META
    checks.append({
        "property_id": pid,
        "quick_cmd": f"./check {pid} --tier quick",
        "thorough_cmd": f"./check {pid} --tier thorough",
        "evidence_file": f"evidence/{pid}.json",
        "replay_cmd_template": f"./check {pid} --replay {{path}}",
        "engine": "mc-explorer",
        "level_claimed": {"category": mod.LEVEL, "text": m.get("level_text", m["rule"]), "design_ref": f"DESIGN.md section 3, {pid}"},
        "level_note": "; ".join(m["assumptions"]),
        "technique": m.get("technique", "bounded exhaustive enumeration (explicit-state / choice-tree model checking) of the real code against a reference model"),
    })
man = {
    "version": 1,
    "setup_cmd": "true",
    "hooks": {"guard": "PDFMINER_SIX_VERIF", "enable": "no hooks are needed: checks import /repo's working tree directly (editable install, sys.path[0]=/repo)",
              "baseline_off_cmd": "cd /repo && /venv/bin/python -m pytest -ra -q -p no:cacheprovider --timeout=900 --continue-on-collection-errors",
              "source_commits": [], "add_only": True},
    "engines": [{"name": "mc-explorer", "path": "mc/", "serves_properties": [c["property_id"] for c in checks],
                 "kind_free_text": "hand-written Python explicit-state / choice-tree / single-fault explorer whose transitions call the real pdfminer functions; 16 worker processes over deterministic shards"}],
    "checks": checks,
    "not_applicable": na,
    "notes": "All checks: ./check <ID> --tier quick|thorough. VERIF_SEED only permutes shard order. known_findings.json lists recorded/fixed defects.",
}
json.dump(man, open(os.path.join(ROOT, "MANIFEST.json"), "w"), indent=1)
print("claimed", [c["property_id"] for c in checks], "na", len(na))
