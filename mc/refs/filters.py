"""Reference encoders (with every encoder freedom as a parameter) and
spec-literal reference decoders for the PDF stream filters of ISO 32000-1 7.4:
ASCIIHex, ASCII85, RunLength, LZW (EarlyChange 1), Flate, and the TIFF-2 / PNG
predictors.  Nothing here imports pdfminer.  The decoders exist only to tie the
encoders to something outside themselves (``selfcheck``).
"""
from __future__ import annotations

import base64
import binascii
import zlib
from typing import Iterable, List, Optional, Sequence, Tuple

# --------------------------------------------------------------------------- helpers
WS_KINDS = {
    "none": None,
    "LF": b"\n",
    "SP": b" ",
    "CRLF": b"\r\n",
    "HT": b"\t",
    "FF": b"\x0c",
    "NUL": b"\x00",
}


def _sprinkle(text: bytes, ws: Optional[bytes], every: int, lead: bool = False) -> bytes:
    """Insert ``ws`` after every ``every`` bytes of ``text`` (and in front when ``lead``)."""
    if not ws:
        return text
    out = bytearray(ws if lead else b"")
    for i in range(0, len(text), every):
        out += text[i : i + every]
        if i + every < len(text):
            out += ws
    return bytes(out)


# --------------------------------------------------------------------------- ASCIIHex
def ahx_encode(data: bytes, case: str = "upper", ws: str = "none", every: int = 2, odd: bool = False, tail_ws: bool = False) -> bytes:
    h = binascii.hexlify(data)
    if case == "upper":
        h = h.upper()
    elif case == "mixed":
        h = bytes((c if i % 3 else bytes((c,)).upper()[0]) for i, c in enumerate(h))
    if odd:
        if not (data and data[-1] & 0x0F == 0):
            raise ValueError("odd-length form needs a final low nibble of 0")
        h = h[:-1]
    w = WS_KINDS[ws]
    body = _sprinkle(h, w, every)
    return body + (w or b"" if tail_ws else b"") + b">"


def ahx_decode_ref(enc: bytes) -> bytes:
    digits = []
    for c in enc:
        if c in b"\x00\t\n\x0c\r ":
            continue
        if c == 0x3E:
            break
        digits.append(int(chr(c), 16))
    else:
        raise ValueError("no EOD")
    if len(digits) % 2:
        digits.append(0)
    return bytes(digits[i] * 16 + digits[i + 1] for i in range(0, len(digits), 2))


# --------------------------------------------------------------------------- ASCII85
def a85_encode(data: bytes, ws: str = "none", every: int = 5, lead_ws: bool = False) -> bytes:
    out = bytearray()
    n = len(data)
    for i in range(0, n, 4):
        grp = data[i : i + 4]
        k = len(grp)
        v = int.from_bytes(grp + b"\x00" * (4 - k), "big")
        if k == 4 and v == 0:
            out += b"z"
            continue
        ds = []
        for _ in range(5):
            ds.append(v % 85)
            v //= 85
        ds.reverse()
        out += bytes(d + 33 for d in ds[: k + 1])
    body = _sprinkle(bytes(out), WS_KINDS[ws], every, lead_ws)
    return body + b"~>"


def a85_decode_ref(enc: bytes) -> bytes:
    out = bytearray()
    grp: List[int] = []
    i = 0
    while True:
        c = enc[i]
        i += 1
        if c in b"\x00\t\n\x0c\r ":
            continue
        if c == 0x7E:  # ~
            assert enc[i] == 0x3E
            break
        if c == 0x7A:  # z
            assert not grp
            out += b"\x00\x00\x00\x00"
            continue
        assert 33 <= c <= 117, c
        grp.append(c - 33)
        if len(grp) == 5:
            v = 0
            for d in grp:
                v = v * 85 + d
            out += v.to_bytes(4, "big")
            grp = []
    if grp:
        k = len(grp)
        assert k >= 2
        grp += [84] * (5 - k)
        v = 0
        for d in grp:
            v = v * 85 + d
        out += v.to_bytes(4, "big")[: k - 1]
    return bytes(out)


# --------------------------------------------------------------------------- RunLength
RL_STRATEGIES = ["greedy", "literal", "run3", "split", "max"]


def _runs(data: bytes) -> List[Tuple[int, int]]:
    runs: List[Tuple[int, int]] = []
    for c in data:
        if runs and runs[-1][0] == c:
            runs[-1] = (c, runs[-1][1] + 1)
        else:
            runs.append((c, 1))
    return runs


def rl_encode(data: bytes, strategy: str = "greedy") -> bytes:
    out = bytearray()
    lit = bytearray()

    def flush_lit(maxlen=128):
        nonlocal lit
        for i in range(0, len(lit), maxlen):
            chunk = lit[i : i + maxlen]
            out.append(len(chunk) - 1)
            out.extend(chunk)
        lit = bytearray()

    def rep(c, n, maxlen=128):
        while n >= 2:
            k = min(n, maxlen)
            if n - k == 1:  # do not leave a single byte behind a maximal run
                k -= 1
            out.append(257 - k)
            out.append(c)
            n -= k
        if n == 1:
            out.append(0)
            out.append(c)

    if strategy == "literal":
        lit.extend(data)
        flush_lit()
    elif strategy in ("greedy", "run3", "max"):
        thr = 3 if strategy == "run3" else 2
        for c, n in _runs(data):
            if n >= thr:
                flush_lit()
                rep(c, n)
            else:
                lit.extend(bytes((c,)) * n)
                if strategy != "max" and len(lit) >= 100:
                    flush_lit()
        flush_lit()
    elif strategy == "split":
        for c, n in _runs(data):
            if n == 1:
                out += bytes((0, c))
            else:
                rep(c, n, maxlen=2 if n % 2 == 0 else 3)
    else:
        raise ValueError(strategy)
    out.append(128)
    return bytes(out)


def rl_decode_ref(enc: bytes) -> bytes:
    out = bytearray()
    i = 0
    while True:
        n = enc[i]
        i += 1
        if n == 128:
            break
        if n < 128:
            out += enc[i : i + n + 1]
            assert len(enc[i : i + n + 1]) == n + 1
            i += n + 1
        else:
            out += bytes((enc[i],)) * (257 - n)
            i += 1
    return bytes(out)


# --------------------------------------------------------------------------- LZW (PDF flavour, EarlyChange = 1)
# "late": a clear-table code after every 255 data codes, i.e. right after the code length has grown to 10 bits
LZW_CLEARS = ["start", "freq", "pre-eod", "late"]


class _BitWriter:
    def __init__(self):
        self.acc = 0
        self.n = 0
        self.out = bytearray()

    def write(self, code: int, nbits: int):
        self.acc = (self.acc << nbits) | code
        self.n += nbits
        while self.n >= 8:
            self.n -= 8
            self.out.append((self.acc >> self.n) & 0xFF)
        self.acc &= (1 << self.n) - 1

    def finish(self) -> bytes:
        if self.n:
            self.out.append((self.acc << (8 - self.n)) & 0xFF)
            self.n = 0
        return bytes(self.out)


def _width(table_len: int, early: int = 1) -> int:
    """Code length a decoder uses when its table holds ``table_len`` entries.

    ISO 32000-1 Table 8: EarlyChange 1 (default) increases the code length one code early (at 511, 1023, 2047
    entries), EarlyChange 0 postpones it as long as possible (at 512, 1024, 2048 entries).
    """
    e = 1 if early else 0
    return 9 if table_len < 512 - e else 10 if table_len < 1024 - e else 11 if table_len < 2048 - e else 12


def lzw_encode(data: bytes, clears: str = "start", early: int = 1) -> bytes:
    """TIFF 6.0 section 13 / ISO 32000-1 7.4.4 encoder, MSB-first codes, EarlyChange ``early``.

    ``k`` counts the data codes written since the last clear-table code; a decoder that has read k codes holds
    258 + max(0, k-1) entries, which fixes the length of the next code (data, clear or EOD).
    """
    bw = _BitWriter()
    table = {}
    next_code = 258
    k = 0

    def reset():
        nonlocal table, next_code, k
        table = {bytes((i,)): i for i in range(256)}
        next_code = 258
        k = 0

    def emit(code: int):
        bw.write(code, _width(258 + max(0, k - 1), early))

    reset()
    emit(256)
    omega = b""
    for c in data:
        ch = bytes((c,))
        if omega + ch in table:
            omega += ch
            continue
        emit(table[omega])
        k += 1
        table[omega + ch] = next_code
        next_code += 1
        omega = ch
        if next_code == 4094 or (clears == "freq" and k % 64 == 0) or (clears == "late" and k % 255 == 0):
            emit(256)
            reset()
    if omega:
        emit(table[omega])
        k += 1
    if clears == "pre-eod":
        emit(256)
        reset()
    emit(257)
    return bw.finish()


def lzw_decode_ref(enc: bytes, early: int = 1) -> bytes:
    """Spec-literal decoder (TIFF 6.0 section 13 pseudo-code; code-length change per EarlyChange)."""
    total = len(enc) * 8
    big = int.from_bytes(enc, "big") if enc else 0
    pos = 0
    out = bytearray()
    table: List[bytes] = []
    nbits = 9
    old: Optional[bytes] = None
    while True:
        if pos + nbits > total:
            raise EOFError
        code = (big >> (total - pos - nbits)) & ((1 << nbits) - 1)
        pos += nbits
        if code == 257:
            break
        if code == 256:
            table = [bytes((i,)) for i in range(256)] + [b"", b""]
            nbits = 9
            old = None
            continue
        if old is None:
            s = table[code]
        elif code < len(table):
            s = table[code]
            table.append(old + s[:1])
        else:
            assert code == len(table), (code, len(table))
            s = old + old[:1]
            table.append(s)
        out += s
        old = s
        nbits = _width(len(table), early)
    return bytes(out)


# --------------------------------------------------------------------------- Flate
def flate_encode(data: bytes, level: int = 6) -> bytes:
    return zlib.compress(data, level)


# --------------------------------------------------------------------------- predictors
def row_bytes(colors: int, columns: int, bits: int) -> int:
    return (colors * columns * bits + 7) // 8


def _paeth(a: int, b: int, c: int) -> int:
    p = a + b - c
    pa, pb, pc = abs(p - a), abs(p - b), abs(p - c)
    if pa <= pb and pa <= pc:
        return a
    if pb <= pc:
        return b
    return c


def png_predict(data: bytes, colors: int, columns: int, bits: int, row_types: Sequence[int]) -> bytes:
    """PNG filtering (PNG spec section 6 / ISO 32000-1 7.4.4.4): raw rows -> tagged filtered rows."""
    rb = row_bytes(colors, columns, bits)
    bpp = max(1, (colors * bits + 7) // 8)
    assert len(data) % rb == 0 and len(data) // rb == len(row_types), (len(data), rb, row_types)
    out = bytearray()
    prior = bytes(rb)
    for r, t in enumerate(row_types):
        raw = data[r * rb : (r + 1) * rb]
        out.append(t)
        for x in range(rb):
            a = raw[x - bpp] if x >= bpp else 0
            b = prior[x]
            c = prior[x - bpp] if x >= bpp else 0
            if t == 0:
                pred = 0
            elif t == 1:
                pred = a
            elif t == 2:
                pred = b
            elif t == 3:
                pred = (a + b) // 2
            elif t == 4:
                pred = _paeth(a, b, c)
            else:
                raise ValueError(t)
            out.append((raw[x] - pred) & 0xFF)
        prior = raw
    return bytes(out)


def png_unpredict_ref(enc: bytes, colors: int, columns: int, bits: int) -> bytes:
    rb = row_bytes(colors, columns, bits)
    bpp = max(1, (colors * bits + 7) // 8)
    out = bytearray()
    prior = bytearray(rb)
    for off in range(0, len(enc), rb + 1):
        t = enc[off]
        line = enc[off + 1 : off + 1 + rb]
        raw = bytearray(rb)
        for x in range(rb):
            a = raw[x - bpp] if x >= bpp else 0
            b = prior[x]
            c = prior[x - bpp] if x >= bpp else 0
            pred = (0, a, b, (a + b) // 2, _paeth(a, b, c))[t]
            raw[x] = (line[x] + pred) & 0xFF
        out += raw
        prior = raw
    return bytes(out)


def tiff_predict(data: bytes, colors: int, columns: int) -> bytes:
    """TIFF predictor 2 for 8-bit components: horizontal differencing per component."""
    rb = colors * columns
    assert len(data) % rb == 0
    out = bytearray()
    for off in range(0, len(data), rb):
        row = data[off : off + rb]
        for x in range(rb):
            out.append((row[x] - (row[x - colors] if x >= colors else 0)) & 0xFF)
    return bytes(out)


def tiff_unpredict_ref(enc: bytes, colors: int, columns: int) -> bytes:
    rb = colors * columns
    out = bytearray()
    for off in range(0, len(enc), rb):
        row = bytearray(enc[off : off + rb])
        for x in range(colors, rb):
            row[x] = (row[x] + row[x - colors]) & 0xFF
        out += row
    return bytes(out)


# --------------------------------------------------------------------------- self validation
def selfcheck(payloads: Iterable[bytes]) -> int:
    """Round-trip every encoder (all choices) through the spec-literal decoders / stdlib.  Raises on mismatch."""
    n = 0
    for p in payloads:
        for case in ("upper", "lower", "mixed"):
            for ws in WS_KINDS:
                for every in (1, 2, 7):
                    e = ahx_encode(p, case, ws, every, tail_ws=(every == 7))
                    assert ahx_decode_ref(e) == p, ("ahx", p, e)
                    n += 1
        assert binascii.unhexlify(ahx_encode(p)[:-1]) == p
        if p and p[-1] & 0x0F == 0:
            assert ahx_decode_ref(ahx_encode(p, odd=True)) == p
        for ws in WS_KINDS:
            for every in (1, 5, 64):
                e = a85_encode(p, ws, every, lead_ws=(every == 1))
                assert a85_decode_ref(e) == p, ("a85", p, e)
                n += 1
        assert a85_encode(p)[:-2] == base64.a85encode(p), ("a85-stdlib", p)
        for s in RL_STRATEGIES:
            e = rl_encode(p, s)
            assert rl_decode_ref(e) == p, ("rl", s, p, e)
            n += 1
        for c in LZW_CLEARS:
            for early in (1, 0):
                e = lzw_encode(p, c, early)
                assert lzw_decode_ref(e, early) == p, ("lzw", c, early, len(p))
                n += 1
    return n
