"""Reference model of the *documented* layout grouping (C09), written from
docs/source/topic/converting_pdf_to_text.rst and the LAParams / find_neighbors
docstrings, in exact rational arithmetic.  Nothing here imports pdfminer.

Glyphs are handled in *reading coordinates* (u0, v0, u1, v1): u grows in the
reading direction of a line, v grows towards the previous line.
  horizontal writing: u = x,  v = y
  vertical writing:   u = -y, v = x   (glyphs run top to bottom, lines right to left)
so one set of predicates serves both writing modes.
"""
from __future__ import annotations

from fractions import Fraction as Q
from typing import Dict, List, Sequence, Tuple


def to_reading(box, orient):
    x0, y0, x1, y1 = (Q(v) for v in box)
    if orient == "H":
        return (x0, y0, x1, y1)
    return (-y1, x0, -y0, x1)


def from_reading(box, orient):
    u0, v0, u1, v1 = box
    if orient == "H":
        return (u0, v0, u1, v1)
    return (v0, -u1, v1, -u0)


def overlap_across(a, b):
    """extent shared across the line direction (negative = gap)"""
    return min(a[3], b[3]) - max(a[1], b[1])


def distance_along(a, b):
    return max(Q(0), a[0] - b[2], b[0] - a[2])


def chars_joined(a, b, line_overlap, char_margin):
    """documented: overlap LARGER than line_overlap * min height, distance SMALLER than char_margin * max width"""
    ha, hb = a[3] - a[1], b[3] - b[1]
    wa, wb = a[2] - a[0], b[2] - b[0]
    return overlap_across(a, b) > Q(line_overlap) * min(ha, hb) and distance_along(a, b) < Q(char_margin) * max(wa, wb)


def space_between(prev, new, word_margin):
    """documented: a space if the characters are FURTHER apart than word_margin * max(width, height) of the new character"""
    gap = new[0] - prev[2]
    return gap > Q(word_margin) * max(new[2] - new[0], new[3] - new[1])


def group_lines(glyphs: Sequence[Tuple], texts: Sequence[str], line_overlap, char_margin, word_margin):
    """maximal runs of consecutive glyphs whose consecutive pairs are joined.
    -> list of lines; a line = (tuple of glyph indices, text incl. spaces and final newline, bbox)"""
    lines = []
    cur: List[int] = []
    for i in range(len(glyphs)):
        if cur and chars_joined(glyphs[i - 1], glyphs[i], line_overlap, char_margin):
            cur.append(i)
        else:
            if cur:
                lines.append(cur)
            cur = [i]
    if cur:
        lines.append(cur)
    out = []
    for idx in lines:
        t = texts[idx[0]]
        for p, n in zip(idx, idx[1:]):
            if space_between(glyphs[p], glyphs[n], word_margin):
                t += " "
            t += texts[n]
        t += "\n"
        bb = (
            min(glyphs[i][0] for i in idx),
            min(glyphs[i][1] for i in idx),
            max(glyphs[i][2] for i in idx),
            max(glyphs[i][3] for i in idx),
        )
        out.append((tuple(idx), t, bb))
    return out


def neighbour_terms(a, b, line_margin):
    """the documented relation seen from line a (tolerance d = line_margin * height of a), term by term"""
    d = Q(line_margin) * (a[3] - a[1])
    along = b[2] > a[0] and a[2] > b[0]                      # extents along the line properly overlap
    gap = max(a[1] - b[3], b[1] - a[3])                      # negative when the lines overlap across
    close = gap < d                                          # closer together than the margin
    same = abs((b[3] - b[1]) - (a[3] - a[1])) <= d           # same height, within the tolerance
    start = abs(b[0] - a[0]) <= d
    end = abs(b[2] - a[2]) <= d
    centre = abs((b[0] + b[2]) / 2 - (a[0] + a[2]) / 2) <= d
    return {"along": along, "close": close, "same": same, "start": start, "end": end, "centre": centre, "d": d, "gap": gap}


def neighbour(a, b, line_margin):
    t = neighbour_terms(a, b, line_margin)
    return t["along"] and t["close"] and t["same"] and (t["start"] or t["end"] or t["centre"])


def group_boxes(lines, line_margin):
    """connected components of the symmetric closure of the neighbour relation -> list of sets of line numbers"""
    n = len(lines)
    parent = list(range(n))

    def find(i):
        while parent[i] != i:
            parent[i] = parent[parent[i]]
            i = parent[i]
        return i

    for i in range(n):
        for j in range(n):
            if i != j and neighbour(lines[i][2], lines[j][2], line_margin):
                parent[find(i)] = find(j)
    comp: Dict[int, List[int]] = {}
    for i in range(n):
        comp.setdefault(find(i), []).append(i)
    return list(comp.values())


def threshold_hits_chars(a, b, line_overlap, char_margin):
    """which documented quantity sits exactly on its threshold (for cause signatures)"""
    ha, hb = a[3] - a[1], b[3] - b[1]
    wa, wb = a[2] - a[0], b[2] - b[0]
    hits = []
    if overlap_across(a, b) == Q(line_overlap) * min(ha, hb):
        hits.append("overlap==line_overlap*min_height")
    if distance_along(a, b) == Q(char_margin) * max(wa, wb):
        hits.append("distance==char_margin*max_width")
    nested = (a[1] <= b[1] and b[3] <= a[3]) or (b[1] <= a[1] and a[3] <= b[3])
    if nested and (ha != hb):
        hits.append("nested-extents")
    return hits


# ---------------------------------------------------------------- hierarchical grouping of boxes (documented part)
def box_distance(a, b):
    """documented closeness of two boxes: area of the bounding rectangle of both minus the two areas (may be negative)"""
    x0, y0, x1, y1 = min(a[0], b[0]), min(a[1], b[1]), max(a[2], b[2]), max(a[3], b[3])
    return (x1 - x0) * (y1 - y0) - (a[2] - a[0]) * (a[3] - a[1]) - (b[2] - b[0]) * (b[3] - b[1])


def first_merge_of_three(bb):
    """bb = three bounding boxes.  -> (pair (i, j) the documentation determines to be merged first, or None, why).
    'Repeatedly merges the two text boxes that are closest to each other.'  The implementation postpones a pair
    when another box lies inside the pair's bounding rectangle (undocumented); the expectation is therefore only
    given when the closest pair is not affected by that rule or when all three pairs are affected alike."""
    pairs = [(0, 1), (0, 2), (1, 2)]
    d = {pq: box_distance(bb[pq[0]], bb[pq[1]]) for pq in pairs}
    best = min(d.values())
    closest = [pq for pq in pairs if d[pq] == best]
    if len(closest) != 1:
        return None, "tie between equally close pairs"

    def between(pq):
        k = 3 - pq[0] - pq[1]
        a, b, c = bb[pq[0]], bb[pq[1]], bb[k]
        x0, y0, x1, y1 = min(a[0], b[0]), min(a[1], b[1]), max(a[2], b[2]), max(a[3], b[3])
        return not (c[2] <= x0 or x1 <= c[0] or c[3] <= y0 or y1 <= c[1])

    btw = {pq: between(pq) for pq in pairs}
    if (not btw[closest[0]]) or all(btw.values()):
        return closest[0], ""
    return None, "closest pair has a third box inside its bounding rectangle while another pair has not"
