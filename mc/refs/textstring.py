"""Reference model of PDF text strings (ISO 32000-1 7.9.2.2, Annex D.2/D.3).

Written from the standard's table, not from pdfminer.  ``PDFDOC`` maps only the
codes Annex D defines; undefined codes (control codes other than HT/LF/CR,
0x7F, 0x9F, 0xAD) are absent, and ``decode_text_ref`` returns ``None`` for a
string containing one (the standard is silent, the oracle does not judge).
"""
from __future__ import annotations

import unicodedata
from typing import Dict, Optional

# (code, code point, Unicode character name) for the non-ASCII, non-Latin-1 part of Annex D.3
_SPECIAL = [
    (0x18, 0x02D8, "BREVE"),
    (0x19, 0x02C7, "CARON"),
    (0x1A, 0x02C6, "MODIFIER LETTER CIRCUMFLEX ACCENT"),
    (0x1B, 0x02D9, "DOT ABOVE"),
    (0x1C, 0x02DD, "DOUBLE ACUTE ACCENT"),
    (0x1D, 0x02DB, "OGONEK"),
    (0x1E, 0x02DA, "RING ABOVE"),
    (0x1F, 0x02DC, "SMALL TILDE"),
    (0x80, 0x2022, "BULLET"),
    (0x81, 0x2020, "DAGGER"),
    (0x82, 0x2021, "DOUBLE DAGGER"),
    (0x83, 0x2026, "HORIZONTAL ELLIPSIS"),
    (0x84, 0x2014, "EM DASH"),
    (0x85, 0x2013, "EN DASH"),
    (0x86, 0x0192, "LATIN SMALL LETTER F WITH HOOK"),
    (0x87, 0x2044, "FRACTION SLASH"),
    (0x88, 0x2039, "SINGLE LEFT-POINTING ANGLE QUOTATION MARK"),
    (0x89, 0x203A, "SINGLE RIGHT-POINTING ANGLE QUOTATION MARK"),
    (0x8A, 0x2212, "MINUS SIGN"),
    (0x8B, 0x2030, "PER MILLE SIGN"),
    (0x8C, 0x201E, "DOUBLE LOW-9 QUOTATION MARK"),
    (0x8D, 0x201C, "LEFT DOUBLE QUOTATION MARK"),
    (0x8E, 0x201D, "RIGHT DOUBLE QUOTATION MARK"),
    (0x8F, 0x2018, "LEFT SINGLE QUOTATION MARK"),
    (0x90, 0x2019, "RIGHT SINGLE QUOTATION MARK"),
    (0x91, 0x201A, "SINGLE LOW-9 QUOTATION MARK"),
    (0x92, 0x2122, "TRADE MARK SIGN"),
    (0x93, 0xFB01, "LATIN SMALL LIGATURE FI"),
    (0x94, 0xFB02, "LATIN SMALL LIGATURE FL"),
    (0x95, 0x0141, "LATIN CAPITAL LETTER L WITH STROKE"),
    (0x96, 0x0152, "LATIN CAPITAL LIGATURE OE"),
    (0x97, 0x0160, "LATIN CAPITAL LETTER S WITH CARON"),
    (0x98, 0x0178, "LATIN CAPITAL LETTER Y WITH DIAERESIS"),
    (0x99, 0x017D, "LATIN CAPITAL LETTER Z WITH CARON"),
    (0x9A, 0x0131, "LATIN SMALL LETTER DOTLESS I"),
    (0x9B, 0x0142, "LATIN SMALL LETTER L WITH STROKE"),
    (0x9C, 0x0153, "LATIN SMALL LIGATURE OE"),
    (0x9D, 0x0161, "LATIN SMALL LETTER S WITH CARON"),
    (0x9E, 0x017E, "LATIN SMALL LETTER Z WITH CARON"),
    (0xA0, 0x20AC, "EURO SIGN"),
]

UNDEFINED = frozenset([c for c in range(0x18) if c not in (0x09, 0x0A, 0x0D)] + [0x7F, 0x9F, 0xAD])


def _build() -> Dict[int, str]:
    t: Dict[int, str] = {0x09: "\t", 0x0A: "\n", 0x0D: "\r"}
    for c in range(0x20, 0x7F):
        t[c] = chr(c)  # ASCII
    for c in range(0xA1, 0x100):
        if c != 0xAD:
            t[c] = chr(c)  # ISO Latin-1 part
    for code, cp, name in _SPECIAL:
        # tie the transcription to something outside itself: the Unicode character database
        assert unicodedata.name(chr(cp)) == name, (hex(code), hex(cp), name)
        assert code not in t
        t[code] = chr(cp)
    assert set(t) | UNDEFINED == set(range(256)) and not (set(t) & UNDEFINED)
    return t


PDFDOC: Dict[int, str] = _build()

BOM = b"\xfe\xff"


def decode_text_ref(b: bytes) -> Optional[str]:
    """Text-string value per 7.9.2.2; None = the standard does not define it."""
    if b[:2] == BOM:
        body = b[2:]
        if len(body) % 2:
            return None
        units = [(body[i] << 8) | body[i + 1] for i in range(0, len(body), 2)]
        out = []
        i = 0
        while i < len(units):
            u = units[i]
            if 0xD800 <= u < 0xDC00:
                if i + 1 < len(units) and 0xDC00 <= units[i + 1] < 0xE000:
                    out.append(chr(0x10000 + ((u - 0xD800) << 10) + (units[i + 1] - 0xDC00)))
                    i += 2
                    continue
                return None  # lone surrogate: ill-formed
            if 0xDC00 <= u < 0xE000:
                return None
            out.append(chr(u))
            i += 1
        return "".join(out)
    out = []
    for c in b:
        if c not in PDFDOC:
            return None
        out.append(PDFDOC[c])
    return "".join(out)
