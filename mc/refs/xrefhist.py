"""Reference writer + model for revision histories (C02).  Independent of pdfminer.

A *history* is a list of revisions.  Each revision is a dict

    {"objs": {num: value}, "root": num, "info": num,          # logical part
     "frees": [num...], "gens": {num: generation},            # optional: numbers marked free; generation numbers
     "form": "T"|"S"|"H", "pack": bool, "eol": bytes, "W": (w1, w2, w3),   # physical part
     "trailer_sep": b"\n"|b" "|b"",  # optional: what separates the keyword ``trailer`` from its dictionary
     "xfilter": None|"flate"|"png"}   # optional: cross-reference streams FlateDecode'd, "png" with /Predictor 12

``write_history`` lays the revisions out as an initial body followed by
incremental updates (ISO 32000-1 7.5.4-7.5.8) and returns the bytes together
with the *model*: for every prefix of the history what every object number
resolves to, which numbers are in use, which section lists what, and where
everything sits in the file.

Physical forms
  T  classic table; trailer dictionary.
  S  cross-reference stream (its dictionary is the trailer).
  H  hybrid: classic table whose trailer has /XRefStm pointing at a
     cross-reference stream that lists the *hidden* objects; the table marks the
     hidden objects free (7.5.8.4).
pack=True (S, H only): every non-stream object of the revision is stored in one
object stream (type-2 entries).  In form H without packing the hidden objects
are ordinary objects listed (type 1) only in the /XRefStm stream.
"""
from __future__ import annotations

import zlib
from typing import Any, Dict, List, Optional, Sequence, Tuple

from mc.pdfgen import N, Name, Ref, Stream, ser

HEADER = b"%PDF-1.5\n%\xe2\xe3\xcf\xd3\n"
EOLS = (b" \n", b"\r\n", b" \r")
WS = ((1, 2, 1), (1, 3, 2), (0, 2, 1))
CONTAINER_BASE = 40  # object stream of revision r: 40+2r, xref stream: 41+2r


class NotExpressible(Exception):
    """The requested physical form cannot express this revision conformantly."""


def runs_of(nums: Sequence[int]) -> List[List[int]]:
    runs: List[List[int]] = []
    for n in sorted(nums):
        if runs and runs[-1][-1] == n - 1:
            runs[-1].append(n)
        else:
            runs.append([n])
    return runs


def table_bytes(inuse: Dict[int, Any], free: Any, eol: bytes) -> bytes:
    """Classic table: one subsection per maximal run; 20-byte entries.

    inuse: {num: offset | (offset, generation)}; free: [num...] (entry ``0 65535 f`` for 0, ``0 1 f`` otherwise) or
    {num: (next free number, generation)}."""
    if not isinstance(free, dict):
        free = {n: (0, 65535 if n == 0 else 1) for n in free}
    out = bytearray(b"xref\n")
    for run in runs_of(list(inuse) + list(free)):
        out += b"%d %d\n" % (run[0], len(run))
        for n in run:
            if n in inuse:
                og = inuse[n]
                off, gen = og if isinstance(og, tuple) else (og, 0)
                ent = b"%010d %05d n" % (off, gen)
            else:
                ent = b"%010d %05d f" % free[n]
            ent += eol
            assert len(ent) == 20
            out += ent
    return bytes(out)


def png_up_encode(data: bytes, columns: int) -> bytes:
    """PNG 'Up' predictor (filter type 2) on rows of ``columns`` bytes, as producers write cross-reference streams."""
    assert len(data) % columns == 0
    out = bytearray()
    prev = bytes(columns)
    for i in range(0, len(data), columns):
        row = data[i : i + columns]
        out.append(2)
        out += bytes((row[j] - prev[j]) & 255 for j in range(columns))
        prev = row
    return bytes(out)


class CodedStream(Stream):
    """A stream whose stored bytes (``data``) are an encoding of ``decoded``; a reader must report ``decoded``."""

    decoded: bytes = b""


def xref_stream(entries: Dict[int, Tuple[int, int, int]], W: Tuple[int, int, int], extra: Dict[str, Any], size: int,
                xfilter: Optional[str] = None) -> Stream:
    data = bytearray()
    for n in sorted(entries):
        t, a, b = entries[n]
        if W[0] == 0:
            if t != 1:
                raise NotExpressible("W[0]=0 can only express type-1 entries")
            fields = ((a, W[1]), (b, W[2]))
        else:
            fields = ((t, W[0]), (a, W[1]), (b, W[2]))
        if W[2] == 0 and (t == 0 or b != 0):
            # an omitted third field means 0: only generation-0 objects and index-0 members; a free entry's
            # generation (65535 for object 0, >= 1 otherwise) cannot be written
            raise NotExpressible("W[2]=0 can only express generation 0 / index 0")
        for v, w in fields:
            v &= (1 << (8 * w)) - 1 if t == 0 else (1 << 64) - 1
            if v >= 1 << (8 * w):
                raise NotExpressible("value does not fit the field width")
            data += v.to_bytes(w, "big")
    idx: List[int] = []
    for r in runs_of(list(entries)):
        idx += [r[0], len(r)]
    d: Dict[str, Any] = {"Type": N("XRef"), "Size": size, "W": list(W)}
    if idx != [0, size]:
        d["Index"] = idx
    d.update(extra)
    if xfilter is None:
        return Stream(d, bytes(data))
    d["Filter"] = N("FlateDecode")
    raw = bytes(data)
    if xfilter == "png":
        d["DecodeParms"] = {"Predictor": 12, "Columns": sum(W)}
        raw = png_up_encode(raw, sum(W))
    elif xfilter != "flate":
        raise ValueError(xfilter)
    cs = CodedStream(d, zlib.compress(raw))
    cs.decoded = bytes(data)
    return cs


def stream_with_length(s: Stream) -> Stream:
    d = dict(s.d)
    d["Length"] = len(s.data)
    if isinstance(s, CodedStream):
        c = CodedStream(d, s.data)
        c.decoded = s.decoded
        return c
    return Stream(d, s.data)


def write_history(revs: Sequence[Dict[str, Any]], header: bytes = HEADER, every_prefix: bool = True):
    """Return (data, model).

    model = {"cuts": [len of file after revision k],
             "values": [ {num: value} newest definition of every number after revision k (kept when later freed) ],
             "freed": [ sorted numbers whose newest cross-reference entry after revision k is a free entry ],
             "sections": [ newest-first list of (kind, sorted in-use numbers) after revision k ],
             "root": [num...], "info": [num...],
             "offsets": [ {num: ("d", offset) | ("o", container, index)} per revision ],
             "xrefpos": [startxref target per revision]}

    every_prefix=False keeps only the state after the last revision (lists of length 1; for very long histories).
    The function is a plain loop over the revisions: nothing here depends on the interpreter's recursion limit.
    """
    out = bytearray(header)
    cur: Dict[int, Any] = {}
    freed: set = set()
    sections: List[Tuple[str, List[int]]] = []
    model: Dict[str, Any] = {"cuts": [], "values": [], "freed": [], "sections": [], "root": [], "info": [], "offsets": [], "xrefpos": []}
    prev = None
    maxnum = 0
    for r, rev in enumerate(revs):
        form, pack, eol, W = rev["form"], rev["pack"], rev["eol"], tuple(rev["W"])
        xfilter = rev.get("xfilter")
        gens: Dict[int, int] = dict(rev.get("gens") or {})
        frees = rev.get("frees") or {}
        if not isinstance(frees, dict):
            frees = {n: 1 for n in frees}
        objs: Dict[int, Any] = dict(rev["objs"])
        if not objs and not frees:
            raise NotExpressible("empty revision")
        if set(frees) & set(objs):
            raise NotExpressible("a revision cannot both define and free a number")
        if form == "T" and pack:
            raise NotExpressible("object streams need a cross-reference stream")
        osnum = CONTAINER_BASE + 2 * r
        xnum = osnum + 1
        assert max(list(objs) + list(frees)) < CONTAINER_BASE
        # only generation-0, non-stream objects may live in an object stream (7.5.7)
        packed = sorted(n for n, v in objs.items() if not isinstance(v, Stream) and not gens.get(n)) if pack else []
        hidden_direct: List[int] = []
        if form == "H" and not packed:
            cand = sorted(n for n in objs if n >= 10) or sorted(objs)
            if not cand:
                raise NotExpressible("hybrid revision with nothing to hide")
            hidden_direct = sorted(set(cand[1::2]) | {cand[-1]})
        offs: Dict[int, Any] = {}
        # ---- body: direct objects
        for n in sorted(objs):
            if n in packed:
                continue
            v = objs[n]
            if isinstance(v, Stream):
                v = stream_with_length(v)
                objs[n] = v
            offs[n] = ("d", len(out))
            out += b"%d %d obj\n" % (n, gens.get(n, 0)) + ser(v) + b"\nendobj\n"
        if packed:
            parts, head, off = [], [], 0
            for i, n in enumerate(packed):
                b = ser(objs[n])
                head.append(b"%d %d" % (n, off))
                parts.append(b)
                off += len(b) + 1
                offs[n] = ("o", osnum, i)
            h = b" ".join(head) + b"\n"
            osobj = stream_with_length(Stream({"Type": N("ObjStm"), "N": len(packed), "First": len(h)}, h + b"\n".join(parts) + b"\n"))
            objs[osnum] = osobj
            offs[osnum] = ("d", len(out))
            out += b"%d 0 obj\n" % osnum + ser(osobj) + b"\nendobj\n"
        maxnum = max([maxnum] + list(objs) + list(frees) + ([xnum] if form != "T" else []))
        size = maxnum + 1
        tr: Dict[str, Any] = {"Root": Ref(rev["root"]), "Info": Ref(rev["info"])}
        if prev is not None:
            tr["Prev"] = prev
        # free list of this section: 0 -> freed numbers in ascending order -> 0 (7.5.4)
        freelist: Dict[int, Tuple[int, int]] = {}
        fsorted = sorted(frees)
        if r == 0 or fsorted:
            freelist[0] = (fsorted[0] if fsorted else 0, 65535)
        for i, n in enumerate(fsorted):
            freelist[n] = (fsorted[i + 1] if i + 1 < len(fsorted) else 0, frees[n])

        def ent1(n, o):
            return (1, o[1], gens.get(n, 0)) if o[0] == "d" else (2, o[1], o[2])

        if form == "T":
            xpos = len(out)
            inuse = {n: (o[1], gens.get(n, 0)) for n, o in offs.items()}
            out += table_bytes(inuse, freelist, eol)
            out += b"trailer" + rev.get("trailer_sep", b"\n") + ser({"Size": size, **tr}) + b"\n"
            newsecs = [("T", sorted(inuse))]
        elif form == "S":
            xpos = len(out)
            entries: Dict[int, Tuple[int, int, int]] = {}
            for n, o in offs.items():
                entries[n] = ent1(n, o)
            entries[xnum] = (1, xpos, 0)
            for n, (nx, g) in freelist.items():
                entries[n] = (0, nx, g)
            xs = stream_with_length(xref_stream(entries, W, tr, size, xfilter))
            objs[xnum] = xs
            offs[xnum] = ("d", xpos)
            out += b"%d 0 obj\n" % xnum + ser(xs) + b"\nendobj\n"
            newsecs = [("S", sorted(n for n, e in entries.items() if e[0] != 0))]
        elif form == "H":
            hidden = packed or hidden_direct
            xspos = len(out)
            entries = {}
            for n in hidden:
                entries[n] = ent1(n, offs[n])
            xs = stream_with_length(xref_stream(entries, W, {}, size, xfilter))
            objs[xnum] = xs
            offs[xnum] = ("d", xspos)
            out += b"%d 0 obj\n" % xnum + ser(xs) + b"\nendobj\n"
            xpos = len(out)
            inuse = {n: (o[1], gens.get(n, 0)) for n, o in offs.items() if n not in hidden}
            tfree = dict(freelist)
            for n in hidden:
                tfree[n] = (0, 1)  # hidden from table-only readers
            out += table_bytes(inuse, tfree, eol)
            out += b"trailer" + rev.get("trailer_sep", b"\n") + ser({"Size": size, **tr, "XRefStm": xspos}) + b"\n"
            newsecs = [("T", sorted(inuse)), ("S", sorted(entries))]
        else:
            raise ValueError(form)
        out += b"startxref\n%d\n%%%%EOF\n" % xpos
        prev = xpos
        cur = {**cur, **objs}
        freed = (freed - set(objs)) | set(frees)
        sections = newsecs + sections
        if not every_prefix and r + 1 < len(revs):
            continue
        model["cuts"].append(len(out))
        model["values"].append(dict(cur))
        model["freed"].append(sorted(freed))
        model["sections"].append(list(sections))
        model["root"].append(rev["root"])
        model["info"].append(rev["info"])
        model["offsets"].append(offs)
        model["xrefpos"].append(xpos)
    return bytes(out), model


# ------------------------------------------------------------------ canonical forms
def canon_model(v: Any) -> Any:
    """Canonical form of a pdfgen value (what a reader must report)."""
    from fractions import Fraction

    if isinstance(v, Stream):
        return ("S", canon_model(v.d), bytes(v.decoded if isinstance(v, CodedStream) else v.data))
    if isinstance(v, Name):
        return ("N", v.v.decode("latin-1"))
    if isinstance(v, Ref):
        return ("R", v.num)
    if isinstance(v, dict):
        return ("D", tuple(sorted((k, canon_model(x)) for k, x in v.items() if x is not None)))
    if isinstance(v, (list, tuple)):
        return ("A", tuple(canon_model(x) for x in v))
    if isinstance(v, bool) or v is None:
        return v
    if isinstance(v, (int, float, Fraction)):
        return ("n", float(v)) if not isinstance(v, int) else v
    if isinstance(v, (bytes, bytearray)):
        return bytes(v)
    raise TypeError(type(v))


def canon_impl(v: Any, depth: int = 0) -> Any:
    """Canonical form of what pdfminer returned (no reference is followed)."""
    from pdfminer.pdftypes import PDFObjRef, PDFStream
    from pdfminer.psparser import PSKeyword, PSLiteral

    if depth > 20:
        return ("deep",)
    if isinstance(v, PDFStream):
        try:
            data = v.get_data()
        except Exception as e:  # noqa
            data = ("EXC", type(e).__name__)
        return ("S", canon_impl(v.attrs, depth + 1), data)
    if isinstance(v, PSLiteral):
        return ("N", v.name if isinstance(v.name, str) else repr(v.name))
    if isinstance(v, PSKeyword):
        return ("K", v.name)
    if isinstance(v, PDFObjRef):
        return ("R", v.objid)
    if isinstance(v, dict):
        return ("D", tuple(sorted((k, canon_impl(x, depth + 1)) for k, x in v.items())))
    if isinstance(v, (list, tuple)):
        return ("A", tuple(canon_impl(x, depth + 1) for x in v))
    if isinstance(v, bool) or v is None:
        return v
    if isinstance(v, int):
        return v
    if isinstance(v, float):
        return ("n", v)
    if isinstance(v, (bytes, bytearray)):
        return bytes(v)
    return ("?", type(v).__name__, repr(v)[:80])
