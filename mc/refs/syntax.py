"""Reference *speller* for PDF object syntax (ISO 32000-1 7.2-7.3).

A model value is turned into bytes by a program that asks a chooser
(``mc.explore.Chooser``) which of the conformant spellings to use at every
choice point; choice 0 is always the canonical spelling.  The sequence of
choice points depends only on the value, never on earlier choices, so a choice
vector can be cut down to any subset of its deviations (used by the
diagnosing classifier in props/c01_syntax.py).

Nothing here imports pdfminer.

Model values: None, bool, int, Real (a Fraction written as a PDF real),
Name (bytes), bytes (literal string), HexStr (bytes written ``<..>``), list,
dict (str key -> value), Ref.
"""
from __future__ import annotations

from fractions import Fraction
from typing import Any, List, Optional, Tuple

from mc.explore import Abort
from mc.pdfgen import HexStr, Name, Ref

__all__ = ["Seq", "Real", "Name", "Ref", "HexStr", "Speller", "expected", "WS", "DELIM"]

WS = b"\x00\t\n\x0c\r "
DELIM = b"()<>[]{}/%"
_REGULAR_PRINTABLE = frozenset(c for c in range(0x21, 0x7F) if c not in DELIM)


class Seq(list):
    """A sequence of top-level objects (what a content stream or an object stream holds), not an array."""


class Real:
    """A real number; ``q`` is an exact Fraction with a finite decimal expansion."""

    __slots__ = ("q",)

    def __init__(self, q):
        self.q = Fraction(q)

    def __repr__(self):
        return f"Real({self.q})"


# --------------------------------------------------------------------------
# expected reading (the representation map the statement allows)
def expected(v: Any) -> Any:
    """Canonical form of what a reader must hand back for model value ``v``."""
    if isinstance(v, Seq):
        return ("seq", tuple(expected(x) for x in v))
    if v is None:
        return ("null",)
    if isinstance(v, bool):
        return ("bool", v)
    if isinstance(v, int):
        return ("int", v)
    if isinstance(v, Real):
        return ("real", repr(float(v.q) + 0.0))
    if isinstance(v, Name):
        try:
            return ("name", v.v.decode("utf-8"))
        except UnicodeDecodeError:
            return ("name", v.v)
    if isinstance(v, (bytes, bytearray)):  # includes HexStr
        return ("str", bytes(v))
    if isinstance(v, Ref):
        return ("ref", v.num)
    if isinstance(v, (list, tuple)):
        return ("arr", tuple(expected(x) for x in v))
    if isinstance(v, dict):
        # ISO 7.3.7: an entry whose value is null is equivalent to an absent entry
        return ("dict", tuple(sorted((k, expected(x)) for k, x in v.items() if x is not None)))
    raise TypeError(type(v))


# --------------------------------------------------------------------------
SEP_ALTS: List[Tuple[str, bytes]] = [
    ("SP", b" "),
    ("LF", b"\n"),
    ("CR", b"\r"),
    ("CRLF", b"\r\n"),
    ("HT", b"\t"),
    ("FF", b"\x0c"),
    ("NUL", b"\x00"),
    ("cmtLF", b"%c\n"),
    ("cmtCR", b"%)>> [\r"),
    ("cmtCRLF", b"%\r\n"),
    ("SPSP", b"  "),
    ("LFSP", b"\n "),
    ("SPcmt", b" %(\n"),
]

_NAMED_ESC = {0x0A: b"\\n", 0x0D: b"\\r", 0x09: b"\\t", 0x08: b"\\b", 0x0C: b"\\f", 0x28: b"\\(", 0x29: b"\\)", 0x5C: b"\\\\"}
_NO_UNKNOWN_ESC = frozenset(b"nrtbf()\\01234567\r\n")

_STARTS_DELIM = {"kw": False, "num": False, "name": True, "lit": True, "hex": True, "aopen": True, "aclose": True, "dopen": True, "dclose": True}
_ENDS_DELIM = {"kw": False, "num": False, "name": False, "lit": True, "hex": True, "aopen": True, "aclose": True, "dopen": True, "dclose": True}


def _dedup(alts):
    seen = set()
    out = []
    for name, b in alts:
        if b in seen:
            continue
        seen.add(b)
        out.append((name, b))
    return out


def _balanced(v: bytes) -> bool:
    d = 0
    for c in v:
        if c == 0x28:
            d += 1
        elif c == 0x29:
            d -= 1
            if d < 0:
                return False
    return d == 0


class Speller:
    """One execution of the spelling program for one value."""

    def __init__(self, x, sep_alts=None, eof_choice: bool = True):
        self.x = x
        self.out = bytearray()
        self.feats: List[Tuple[int, str]] = []  # (index of the choice point, feature name) of every deviation
        self.prev: Optional[str] = None
        self.bad = False
        self.sep_alts = SEP_ALTS if sep_alts is None else sep_alts
        self.eof_choice = eof_choice
        self.first_kind: Optional[str] = None
        self.lead = b""
        self.trail = b""
        self.body_start = 0
        self.item_starts: List[int] = []  # offsets of the items of a Seq
        self._mark = False

    # ---- choice helper
    def pick(self, label: str, alts) -> bytes:
        if len(alts) == 1:
            return alts[0][1]
        i = self.x.choose(len(alts), label)
        if i:
            self.feats.append((len(self.x.choices) - 1, f"{label}={alts[i][0]}"))
        return alts[i][1]

    # ---- separators
    def _sep(self, nxt: Optional[str]) -> bytes:
        prev = self.prev
        if prev is None:  # leading
            alts = [("none", b"")] + self.sep_alts
            ctx = f"start/before-{nxt}"
        elif nxt is None:  # trailing
            alts = [("LF", b"\n")] + [a for a in self.sep_alts if a[0] != "LF"]
            if self.eof_choice:
                alts = alts + [("EOF", b"")]
            ctx = f"after-{prev}/end"
        else:
            need = not (_ENDS_DELIM[prev] or _STARTS_DELIM[nxt])
            if need:
                alts = list(self.sep_alts)
            else:
                alts = [("none", b"")] + self.sep_alts
            ctx = f"after-{prev}/before-{nxt}"
        return self.pick(f"sep@{ctx}", alts)

    def tok(self, kind: str, body: bytes) -> None:
        s = self._sep(kind)
        if self._mark:
            self.item_starts.append(len(self.out) + len(s))
            self._mark = False
        if self.prev is None:
            self.lead = s
            self.first_kind = kind
            self.body_start = len(s)
        self.out += s
        self.out += body
        self.prev = kind

    def finish(self) -> bytes:
        self.trail = self._sep(None)
        self.body_end = len(self.out)
        self.out += self.trail
        if self.bad:
            raise Abort()
        return bytes(self.out)

    # ---- values
    def value(self, v: Any) -> None:
        if isinstance(v, Seq):
            for e in v:
                self._mark = True
                self.value(e)
            return
        if v is None:
            self.tok("kw", b"null")
        elif v is True:
            self.tok("kw", b"true")
        elif v is False:
            self.tok("kw", b"false")
        elif isinstance(v, int):
            self.tok("num", self._int(v))
        elif isinstance(v, Real):
            self.tok("num", self._real(v.q))
        elif isinstance(v, Name):
            self.tok("name", self._name(v.v))
        elif isinstance(v, HexStr):
            self.tok("hex", self._hex(bytes(v)))
        elif isinstance(v, (bytes, bytearray)):
            self.tok("lit", self._lit(bytes(v)))
        elif isinstance(v, Ref):
            self.tok("num", b"%d" % v.num)
            self.tok("num", b"%d" % v.gen)
            self.tok("kw", b"R")
        elif isinstance(v, (list, tuple)):
            self.tok("aopen", b"[")
            for e in v:
                self.value(e)
            self.tok("aclose", b"]")
        elif isinstance(v, dict):
            self.tok("dopen", b"<<")
            for k, e in v.items():
                self.tok("name", self._name(k.encode("utf-8") if isinstance(k, str) else k))
                self.value(e)
            self.tok("dclose", b">>")
        else:
            raise TypeError(type(v))

    def _int(self, v: int) -> bytes:
        if v >= 0:
            alts = [("canon", b"%d" % v), ("plus", b"+%d" % v), ("zeros", b"00%d" % v), ("plus-zero", b"+0%d" % v)]
            if v == 0:
                alts.append(("minus-zero", b"-0"))
        else:
            alts = [("canon", b"%d" % v), ("zeros", b"-00%d" % -v)]
        return self.pick("int", alts)

    def _real(self, q: Fraction) -> bytes:
        s = b"-" if q < 0 else b""
        a = abs(q)
        ip = a.numerator // a.denominator
        fr = a - ip
        fp = b""
        n = 0
        while fr:
            fr *= 10
            d = fr.numerator // fr.denominator
            fp += b"%d" % d
            fr -= d
            n += 1
            if n > 30:
                raise ValueError("not a finite decimal")
        ips = b"%d" % ip
        fp0 = fp or b"0"
        alts = [("canon", s + ips + b"." + fp0)]
        if ip == 0:
            alts.append(("nolead", s + b"." + fp0))
        if q >= 0:
            alts.append(("plus", b"+" + ips + b"." + fp0))
            if ip == 0:
                alts.append(("plus-nolead", b"+." + fp0))
        alts.append(("zeros", s + b"00" + ips + b"." + fp0 + b"0"))
        if not fp:
            alts.append(("notrail", s + ips + b"."))
        alts.append(("trail00", s + ips + b"." + fp0 + b"00"))
        if q >= 0 and not fp:
            alts.append(("plus-notrail", b"+" + ips + b"."))
        if q == 0:
            # zero has no sign: -0.0, -.0 and -0. are spellings of the same number
            alts += [("neg-zero", b"-0.0"), ("neg-zero-nolead", b"-.0"), ("neg-zero-notrail", b"-0.")]
        return self.pick("real", _dedup(alts))

    def _name(self, v: bytes) -> bytes:
        out = bytearray(b"/")
        for c in v:
            ch = bytes((c,))
            hu, hl = b"#%02X" % c, b"#%02x" % c
            if c == 0:
                raise ValueError("NUL cannot be written in a name")
            if c in _REGULAR_PRINTABLE and c != 0x23:
                alts = [("raw", ch), ("hexU", hu), ("hexL", hl)]
            elif c in WS or c in DELIM or c == 0x23:
                alts = [("hexU", hu), ("hexL", hl)]
            else:
                raw = "raw-vt" if c == 0x0B else ("raw-high" if c >= 0x80 else "raw-ctl")
                alts = [("hexU", hu), ("hexL", hl), (raw, ch)]
            out += self.pick("name", _dedup(alts))
        return bytes(out)

    def _lit(self, v: bytes) -> bytes:
        has_paren = (0x28 in v) or (0x29 in v)
        rawparens = False
        if has_paren and _balanced(v):
            rawparens = bool(self.pick("str.parens", [("esc", b""), ("raw-balanced", b"1")]))
        out = bytearray(b"(")
        tail_cr = False  # output so far ends with a raw CR acting as (part of) an end-of-line marker
        n = len(v)
        for i in range(n + 1):
            cont = self.pick("str.cont", [("none", b""), ("LF", b"\\\n"), ("CR", b"\\\r"), ("CRLF", b"\\\r\n")])
            if cont:
                out += cont
                tail_cr = cont == b"\\\r"
            if i == n:
                break
            c = v[i]
            ch = bytes((c,))
            nxt = v[i + 1] if i + 1 < n else None
            short_ok = nxt is None or not (0x30 <= nxt <= 0x39)
            o3 = ("oct3", b"\\%03o" % c)
            # fewer than three octal digits are allowed when the next character is not a digit (or the string ends)
            osh = [("octshort", b"\\%o" % c)] if short_ok else []
            if short_ok and c < 0o100:
                osh.append(("oct2", b"\\%02o" % c))
            if c == 0x0A:
                alts = [("n", b"\\n"), ("raw-LF", b"\n"), ("raw-CR-eol", b"\r"), ("raw-CRLF-eol", b"\r\n"), o3] + osh
            elif c == 0x0D:
                alts = [("r", b"\\r"), o3] + osh
            elif c in (0x09, 0x08, 0x0C):
                alts = [("named", _NAMED_ESC[c]), ("raw-ctl", ch), o3] + osh
            elif c in (0x28, 0x29):
                alts = [("esc", _NAMED_ESC[c]), o3]
            elif c == 0x5C:
                alts = [("esc", b"\\\\"), o3]
            else:
                alts = [("raw", ch), o3] + osh
                if c not in _NO_UNKNOWN_ESC:
                    alts.append(("unknown-esc", b"\\" + ch))
            # ISO 32000-1 7.3.4.2: "high-order overflow shall be ignored": \ddd above \377 stands for ddd mod 256
            alts.append(("oct-overflow", b"\\%03o" % (c + 256)))
            nfe = len(self.feats)
            piece = self.pick("str", _dedup(alts))
            if c in (0x28, 0x29) and rawparens:
                if len(self.feats) != nfe:
                    self.bad = True  # raw-balanced spelling needs every parenthesis raw
                piece = ch
            if piece == b"\n" and tail_cr:
                self.bad = True  # CR LF would fuse into one end-of-line marker: ambiguous spelling
            out += piece
            tail_cr = piece == b"\r"
        out += b")"
        return bytes(out)

    def _hex(self, v: bytes) -> bytes:
        up = v.hex().upper().encode()
        lo = v.hex().encode()
        mixed = bytes((up[i] if i % 2 == 0 else lo[i]) for i in range(len(up)))
        mixed2 = bytes((lo[i] if i % 2 == 0 else up[i]) for i in range(len(up)))
        digits = self.pick("hex.case", _dedup([("upper", up), ("lower", lo), ("mixedUl", mixed), ("mixedlU", mixed2)]))
        odd = False
        if v and (v[-1] & 0x0F) == 0:
            odd = bool(self.pick("hex.len", [("even", b""), ("odd", b"1")]))
        if odd:
            digits = digits[:-1]
        pos = {"open": 0, "close": len(digits)}
        if len(digits) >= 2:
            pos["mid"] = 1
        if len(digits) >= 3:
            pos["pair"] = 2
        alts = [("none", b"")]
        kinds = [("SP", b" "), ("LF", b"\n"), ("CR", b"\r"), ("CRLF", b"\r\n"), ("HT", b"\t"), ("FF", b"\x0c"), ("NUL", b"\x00")]
        plist = sorted(pos, key=lambda k: (pos[k], k))
        for p in plist:
            if p == "close" and pos["close"] == 0:
                continue
            for kn, kb in kinds:
                alts.append((f"{kn}@{p}", bytes((len(alts),))))
        tag = self.pick("hex.ws", alts)
        if tag:
            idx = tag[0] - 1
            p = [q for q in plist if not (q == "close" and pos["close"] == 0)][idx // len(kinds)]
            kb = kinds[idx % len(kinds)][1]
            digits = digits[: pos[p]] + kb + digits[pos[p] :]
        return b"<" + digits + b">"


def spell(x, v: Any, **kw) -> Speller:
    s = Speller(x, **kw)
    s.value(v)
    s.data = s.finish()
    return s
