"""Feature-covering seed documents (object models) for the fault campaign (C13).

Each seed is a function returning ``(Doc, write_kwargs)``; ``doc.write(**write_kwargs)``
gives the valid file.  Payloads are kept short so that every-position payload
faults and every-byte truncation stay affordable.
"""
from __future__ import annotations

import hashlib
import zlib
from typing import Any, Dict, Tuple

from mc.pdfgen import Doc, HexStr, N, Raw, Ref, Stream, tounicode_cmap, widths_font

PAD = bytes.fromhex("28BF4E5E4E758A4164004E56FFFA01082E2E00B6D0683E802F0CA9FE6453697A")


def rc4(key: bytes, data: bytes) -> bytes:
    s = list(range(256))
    j = 0
    for i in range(256):
        j = (j + s[i] + key[i % len(key)]) & 255
        s[i], s[j] = s[j], s[i]
    i = j = 0
    out = bytearray()
    for c in data:
        i = (i + 1) & 255
        j = (j + s[i]) & 255
        s[i], s[j] = s[j], s[i]
        out.append(c ^ s[(s[i] + s[j]) & 255])
    return bytes(out)


def _skeleton(d: Doc, contents, resources: Dict[str, Any], catalog_extra=None, page_extra=None, mediabox=(0, 0, 300, 300)) -> Ref:
    cat, pages, page = d.reserve(), d.reserve(), d.reserve()
    if isinstance(contents, list):
        cref: Any = [d.add(Stream({}, c)) for c in contents]
    else:
        cref = d.add(Stream({}, contents))
    d.set(cat, {"Type": N("Catalog"), "Pages": pages, **(catalog_extra or {})})
    d.set(pages, {"Type": N("Pages"), "Kids": [page], "Count": 1})
    d.set(page, {"Type": N("Page"), "Parent": pages, "MediaBox": list(mediabox), "Resources": resources, "Contents": cref, **(page_extra or {})})
    return cat


def seed_pages() -> Tuple[Doc, Dict[str, Any]]:
    """page tree with inheritance, rotation, crop box, contents arrays, page labels"""
    d = Doc()
    cat, root, mid, p1, p2, p3 = (d.reserve() for _ in range(6))
    f1 = d.add({"Type": N("Font"), "Subtype": N("Type1"), "BaseFont": N("Helvetica")})
    f2 = d.add({"Type": N("Font"), "Subtype": N("Type1"), "BaseFont": N("Times-Roman"), "Encoding": N("WinAnsiEncoding")})
    c1 = d.add(Stream({}, b"BT /F1 12 Tf 20 100 Td (One) Tj ET"))
    c2a = d.add(Stream({}, b"BT /F1 12 Tf 20 100 Td (Tw"))
    c2b = d.add(Stream({}, b"o) Tj ET"))
    c3 = d.add(Stream({"Filter": N("FlateDecode"), "DecodeParms": {"Predictor": 1, "Columns": 1}}, zlib.compress(b"q 1 0 0 1 5 5 cm BT /F2 9 Tf 1 0 0 1 20 50 Tm (Three) Tj T* (x) ' ET Q")))
    mbox = d.add([0, 0, 200, 150])
    labels = d.add({"Nums": [0, {"S": N("r")}, 2, {"S": N("D"), "St": 5, "P": b"A-"}]})
    mid_labels = d.add({"Kids": [labels]})
    d.set(cat, {"Type": N("Catalog"), "Pages": root, "PageLabels": {"Kids": [mid_labels]}})
    d.set(root, {"Type": N("Pages"), "Kids": [mid, p3], "Count": 3, "Resources": {"Font": {"F1": f1}, "ProcSet": [N("PDF"), N("Text")]}, "MediaBox": mbox, "Rotate": 90})
    d.set(mid, {"Type": N("Pages"), "Parent": root, "Kids": [p1, p2], "Count": 2, "CropBox": [10, 10, 190, 140]})
    d.set(p1, {"Type": N("Page"), "Parent": mid, "Contents": c1})
    d.set(p2, {"Type": N("Page"), "Parent": mid, "Contents": [c2a, c2b], "Rotate": 0, "MediaBox": [0, 0, 100, 120]})
    d.set(p3, {"Type": N("Page"), "Parent": root, "Contents": c3, "Resources": {"Font": {"F2": f2}}, "Rotate": 270, "LastModified": b"D:20200101"})
    return d, {"root": cat}


T1_PROGRAM = (
    b"%!PS-AdobeFont-1.0: Tiny 001.000\n12 dict begin\n/FontName /Tiny def\n/FontMatrix [0.001 0 0 0.001 0 0] readonly def\n"
    b"/Encoding 256 array\n0 1 255 {1 index exch /.notdef put} for\ndup 65 /B put\ndup 66 /A put\ndup 67 /Euro put\nreadonly def\n"
    b"/FontBBox {0 -200 1000 800} readonly def\ncurrentdict end\ncurrentfile eexec\n"
)


def seed_fonts() -> Tuple[Doc, Dict[str, Any]]:
    """simple fonts: Differences, ToUnicode, Widths, descriptors, embedded Type1, TrueType, Type3, MMType1"""
    d = Doc()
    tu = d.add(Stream({}, tounicode_cmap(bfchars=[(b"\x43", "X"), (b"\x44", "\U0001F600")], bfranges=[(b"\x61", b"\x63", "x"), (b"\x64", b"\x65", ["p", "qr"])])))
    ff = d.add(Stream({"Length1": len(T1_PROGRAM), "Length2": 0, "Length3": 0}, T1_PROGRAM))
    fd = d.add({"Type": N("FontDescriptor"), "FontName": N("ABCDEF+Tiny"), "Flags": 4, "FontBBox": [0, -200, 1000, 800], "ItalicAngle": 0,
                "Ascent": 800, "Descent": -200, "CapHeight": 700, "StemV": 80, "MissingWidth": 333, "FontFile": ff, "Leading": 1200})
    f1 = d.add({"Type": N("Font"), "Subtype": N("Type1"), "BaseFont": N("ABCDEF+Tiny"), "FirstChar": 65, "LastChar": 68, "Widths": [500, 600, d.add(700), 800],
                "FontDescriptor": fd, "ToUnicode": tu,
                "Encoding": {"Type": N("Encoding"), "BaseEncoding": N("MacRomanEncoding"), "Differences": [65, N("Alpha"), N("uni0042"), 97, N("f_i"), N("u1F600"), N("g.alt")]}})
    f2 = d.add({"Type": N("Font"), "Subtype": N("Type1"), "BaseFont": N("Tiny2"), "FontDescriptor": fd})  # built-in encoding from the font program
    f3 = d.add({"Type": N("Font"), "Subtype": N("TrueType"), "BaseFont": N("Arial"), "FirstChar": 32, "LastChar": 34, "Widths": [278, 278, 355], "Encoding": N("WinAnsiEncoding"),
                "FontDescriptor": {"Type": N("FontDescriptor"), "FontName": N("Arial"), "Flags": 32, "FontBBox": [-665, -325, 2000, 1006], "Ascent": 905, "Descent": -212, "MissingWidth": 750}})
    cp_a = d.add(Stream({}, b"1000 0 0 0 750 750 d1 0 0 750 750 re f"))
    cp_b = d.add(Stream({}, b"500 0 d0 0 0 m 500 500 l S"))
    f4 = d.add({"Type": N("Font"), "Subtype": N("Type3"), "FontBBox": [0, 0, 750, 750], "FontMatrix": [0.002, 0, 0, 0.002, 0, 0], "CharProcs": {"sq": cp_a, "ln": cp_b},
                "Encoding": {"Type": N("Encoding"), "Differences": [97, N("sq"), N("ln")]}, "FirstChar": 97, "LastChar": 98, "Widths": [1000, 500], "Resources": {}})
    f5 = d.add({"Type": N("Font"), "Subtype": N("MMType1"), "BaseFont": N("Symbol")})
    f6 = d.add({"Type": N("Font"), "Subtype": N("Type1"), "BaseFont": N("Courier-Bold"), "Encoding": N("StandardEncoding")})
    content = (b"BT /F1 10 Tf 10 200 Td (ABCDab) Tj /F2 8 Tf 0 -20 Td (ABC) Tj /F3 12 Tf 0 -20 Td ( !\") Tj /F4 10 Tf 0 -20 Td (ab) Tj "
               b"/F5 10 Tf 0 -20 Td (abg) Tj /F6 10 Tf 0 -20 Td [(W) -120 (x)] TJ ET")
    cat = _skeleton(d, content, {"Font": {"F1": f1, "F2": f2, "F3": f3, "F4": f4, "F5": f5, "F6": f6}})
    return d, {"root": cat}


EMBEDDED_CMAP = (
    b"/CIDInit /ProcSet findresource begin\n12 dict begin\nbegincmap\n/CIDSystemInfo << /Registry (Adobe) /Ordering (Japan1) /Supplement 0 >> def\n"
    b"/CMapName /Custom-H def\n/CMapType 1 def\n/WMode 0 def\n/H usecmap\n1 begincodespacerange\n<00> <FF>\nendcodespacerange\n"
    b"1 begincidrange\n<20> <7E> 231\nendcidrange\n1 begincidchar\n<80> 500\nendcidchar\nendcmap\nCMapName currentdict /CMap defineresource pop\nend\nend\n"
)


def seed_cid() -> Tuple[Doc, Dict[str, Any]]:
    """composite fonts: Identity-H + W/DW + ToUnicode, predefined CJK CMap, vertical W2/DW2, embedded CMap with usecmap"""
    d = Doc()
    tu = d.add(Stream({}, tounicode_cmap(bfchars=[(b"\x00\x41", "A")], bfranges=[(b"\x00\x42", b"\x00\x44", "B"), (b"\x00\x50", b"\x00\x51", ["p", "qq"])], codespace=[(b"\x00\x00", b"\xff\xff")])))
    csi = {"Registry": b"Adobe", "Ordering": b"Identity", "Supplement": 0}
    fd = d.add({"Type": N("FontDescriptor"), "FontName": N("AAAAAA+Cid"), "Flags": 4, "FontBBox": [0, -200, 1000, 800], "Ascent": 800, "Descent": -200, "ItalicAngle": 0, "StemV": 80, "CapHeight": 700})
    df1 = d.add({"Type": N("Font"), "Subtype": N("CIDFontType2"), "BaseFont": N("AAAAAA+Cid"), "CIDSystemInfo": csi, "FontDescriptor": fd, "DW": 750,
                 "W": [65, [500, d.add(600)], 67, 68, 700, 80, [100]], "CIDToGIDMap": N("Identity")})
    f1 = d.add({"Type": N("Font"), "Subtype": N("Type0"), "BaseFont": N("AAAAAA+Cid"), "Encoding": N("Identity-H"), "DescendantFonts": [df1], "ToUnicode": tu})
    df2 = d.add({"Type": N("Font"), "Subtype": N("CIDFontType0"), "BaseFont": N("Ryumin-Light"), "CIDSystemInfo": d.add({"Registry": b"Adobe", "Ordering": b"Japan1", "Supplement": 2}),
                 "FontDescriptor": {"Type": N("FontDescriptor"), "FontName": N("Ryumin-Light"), "Flags": 6, "FontBBox": [-170, -331, 1024, 903], "Ascent": 723, "Descent": -241, "MissingWidth": 500},
                 "DW": 1000, "W": [1, 95, 500]})
    f2 = d.add({"Type": N("Font"), "Subtype": N("Type0"), "BaseFont": N("Ryumin-Light-90ms-RKSJ-H"), "Encoding": N("90ms-RKSJ-H"), "DescendantFonts": [df2]})
    df3 = d.add({"Type": N("Font"), "Subtype": N("CIDFontType0"), "BaseFont": N("V"), "CIDSystemInfo": {"Registry": b"Adobe", "Ordering": b"Japan1", "Supplement": 2},
                 "FontDescriptor": fd, "DW2": [880, -1000], "W2": [10, [-500, 250, 880], 20, 22, -700, 300, 800]})
    f3 = d.add({"Type": N("Font"), "Subtype": N("Type0"), "BaseFont": N("V-Identity-V"), "Encoding": N("Identity-V"), "DescendantFonts": [df3]})
    cm = d.add(Stream({"Type": N("CMap"), "CMapName": N("Custom-H"), "CIDSystemInfo": {"Registry": b"Adobe", "Ordering": b"Japan1", "Supplement": 0}}, EMBEDDED_CMAP))
    f4 = d.add({"Type": N("Font"), "Subtype": N("Type0"), "BaseFont": N("Emb"), "Encoding": cm, "DescendantFonts": [df2]})
    content = (b"BT /F1 10 Tf 10 250 Td <004100420043005000510099> Tj /F2 10 Tf 0 -20 Td <82a082a24142> Tj /F3 10 Tf 100 200 Td <000a000b0014> Tj "
               b"/F4 10 Tf -90 -100 Td (A b\x80) Tj ET")
    cat = _skeleton(d, content, {"Font": {"F1": f1, "F2": f2, "F3": f3, "F4": f4}})
    return d, {"root": cat}


def seed_xref() -> Tuple[Doc, Dict[str, Any]]:
    """xref stream + object stream + Info; written with xref='stream'"""
    d = Doc()
    f1 = d.add({"Type": N("Font"), "Subtype": N("Type1"), "BaseFont": N("Helvetica")})
    ln = d.reserve()
    cat = _skeleton(d, b"BT /F1 12 Tf 20 100 Td (Stream) Tj ET", {"Font": {"F1": f1}})
    # a content stream whose Length is indirect and stored after it
    c2 = d.add(Stream({}, b"BT /F1 12 Tf 20 80 Td (Second) Tj ET", length=ln))
    d.set(ln, len(b"BT /F1 12 Tf 20 80 Td (Second) Tj ET"))
    page = next(o for _, o in d.objs.values() if isinstance(o, dict) and o.get("Type") == N("Page"))
    page["Contents"] = [page["Contents"], c2]
    info = d.add({"Title": b"\xfe\xff\x00T", "Producer": b"seed"})
    return d, {"root": cat, "info": info, "xref": "stream", "objstm": [f1.num, ln.num, cat.num, cat.num + 1, cat.num + 2, info.num], "trailer_extra": {"ID": [HexStr(b"0123456789abcdef"), HexStr(b"0123456789abcdef")]}}


def seed_xrefidx() -> Tuple[Doc, Dict[str, Any]]:
    """the xref-stream seed with a hole in the object numbers, so the generated cross-reference stream carries an explicit
    /Index array of two subsections (as incrementally updated files do)"""
    d = Doc()
    f1 = d.add({"Type": N("Font"), "Subtype": N("Type1"), "BaseFont": N("Helvetica")})
    hole1 = d.reserve()
    cat = _skeleton(d, b"BT /F1 12 Tf 20 100 Td (Index) Tj ET", {"Font": {"F1": f1}})
    hole2 = d.reserve()
    info = d.add({"Title": b"idx"})
    del d.objs[hole1.num], d.objs[hole2.num]  # never defined: these numbers are missing from the file
    return d, {"root": cat, "info": info, "xref": "stream", "objstm": [f1.num, cat.num + 1]}


JPEG = bytes.fromhex(
    "ffd8ffe000104a46494600010100000100010000ffdb004300080606070605080707070909080a0c140d0c0b0b0c1912130f141d1a1f1e1d1a1c1c20242e2720222c231c1c2837292c30313434341f27393d38323c2e333432"
    "ffc0000b080001000101011100ffc4001f0000010501010101010100000000000000000102030405060708090a0bffc400b5100002010303020403050504040000017d01020300041105122131410613516107227114328191a1082342b1c11552d1f02433627282090a161718191a25262728292a3435363738393a434445464748494a535455565758595a636465666768696a737475767778797a838485868788898a92939495969798999aa2a3a4a5a6a7a8a9aab2b3b4b5b6b7b8b9bac2c3c4c5c6c7c8c9cad2d3d4d5d6d7d8d9dae1e2e3e4e5e6e7e8e9eaf1f2f3f4f5f6f7f8f9faffda0008010100003f00fbfcffd9"
)


# --------------------------------------------------------------------------- content stream as an operator list
GFX_SRC = (
    "q 10 0 0 10 20 20 cm /Im1 Do Q q 5 0 0 5 60 20 cm /Im2 Do Q q /Im3 Do /Im4 Do Q /Fm Do "
    "/GS0 gs 2 w [ 3 1 ] 0 d 1 J 1 j 4 M /Perceptual ri 1 i 10 10 m 20 20 l 30 10 40 10 50 20 c 60 30 70 30 v 80 40 90 50 y h S "
    "/CS0 cs 0.1 0.2 0.3 sc /CS1 CS 1 SC /CS2 cs 0.5 scn /CS3 CS 0.1 0.9 SCN /CS4 cs /P0 scn 0.5 g 0.2 G 1 0 0 rg 0 1 0 RG 0 0 0 1 k 1 0 0 0 K "
    "100 100 50 40 re B 100 150 50 40 re f* 10 200 m 50 200 l 50 240 l b* 5 5 m 6 6 l n 0 0 5 5 re W n 1 1 3 3 re W* n 7 7 m 8 8 l s 7 7 m 8 8 l 9 7 l b 7 7 m 8 8 l 9 7 l B* 7 7 m 8 8 l 9 7 l f 7 7 m 8 8 l 9 7 l F /Sh0 sh "
    "/Tag MP /Tag /MC0 DP /Tag BMC /Span << /MCID 0 >> BDC BT /F1 9 Tf 2 Tr 3 Ts 90 Tz 1 Tc 2 Tw 11 TL 10 280 Td 1 0 0 1 10 270 Tm 0 -12 TD T* (Gfx) Tj [ (T) -20 (J) 5.5 ] TJ (a) ' 1 2 (b) \" ET EMC EMC BX EX "
    "q 8 0 0 8 200 200 cm BI /W 2 /H 2 /CS /G /BPC 8 /F /AHx ID|00 FF 80 7F > EI Q BT /F1 9 Tf 10 10 Td (End) Tj ET"
)


def parse_ops(src: str):
    """[(operands, operator, raw-bytes-after-operator)] from the mini-language above: tokens separated by blanks; /Name, numbers,
    (string), [ array ], << dict >>; anything else is an operator; 'ID|data' attaches raw inline-image data to ID"""
    toks = src.split(" ")
    pos = 0

    def value():
        nonlocal pos
        t = toks[pos]
        pos += 1
        if t == "[":
            out = []
            while toks[pos] != "]":
                out.append(value())
            pos += 1
            return out
        if t == "<<":
            dd = {}
            while toks[pos] != ">>":
                k = toks[pos][1:]
                pos += 1
                dd[k] = value()
            pos += 1
            return dd
        if t.startswith("/"):
            return N(t[1:])
        if t.startswith("("):
            return t[1:-1].encode()
        try:
            return int(t)
        except ValueError:
            return float(t)

    ops, operands = [], []
    while pos < len(toks):
        t = toks[pos]
        if t[0] in "/([<-.0123456789":
            operands.append(value())
            continue
        pos += 1
        raw = b""
        if t == "ID|00":
            t = "ID"
            end = toks.index("EI", pos)
            raw = " ".join(["00"] + toks[pos:end]).encode()
            pos = end
        ops.append((operands, t, raw))
        operands = []
    assert not operands
    return ops


def ser_ops(ops) -> bytes:
    from mc.pdfgen import ser

    out = []
    for operands, op, raw in ops:
        out.extend(ser(v) for v in operands)
        out.append(op.encode())
        if raw:
            out.append(raw)
    return b" ".join(out)


GFX_OPS = parse_ops(GFX_SRC)


def seed_graphics() -> Tuple[Doc, Dict[str, Any]]:
    """form and image XObjects, inline image, filters and predictors, colour spaces, paths, marked content"""
    d = Doc()
    f1 = d.add({"Type": N("Font"), "Subtype": N("Type1"), "BaseFont": N("Helvetica")})
    # 2x2 RGB with PNG predictor (row filters Sub, Up)
    rows = bytes([1, 10, 20, 30, 5, 5, 5]) + bytes([2, 1, 1, 1, 2, 2, 2])
    im1 = d.add(Stream({"Type": N("XObject"), "Subtype": N("Image"), "Width": 2, "Height": 2, "ColorSpace": N("DeviceRGB"), "BitsPerComponent": 8,
                        "Filter": N("FlateDecode"), "DecodeParms": {"Predictor": 15, "Colors": 3, "Columns": 2, "BitsPerComponent": 8}}, zlib.compress(rows)))
    import base64
    im2 = d.add(Stream({"Type": N("XObject"), "Subtype": N("Image"), "Width": 4, "Height": 1, "ColorSpace": N("DeviceGray"), "BitsPerComponent": 8,
                        "Filter": [N("ASCII85Decode"), N("RunLengthDecode")], "DecodeParms": [None, None]}, base64.a85encode(bytes([253, 7, 128])) + b"~>"))
    im3 = d.add(Stream({"Type": N("XObject"), "Subtype": N("Image"), "Width": 1, "Height": 1, "ColorSpace": N("DeviceGray"), "BitsPerComponent": 8, "Filter": N("DCTDecode")}, JPEG))
    im4 = d.add(Stream({"Type": N("XObject"), "Subtype": N("Image"), "Width": 8, "Height": 1, "ImageMask": True, "BitsPerComponent": 1,
                        "Filter": [N("ASCIIHexDecode"), N("CCITTFaxDecode")], "DecodeParms": [None, {"K": -1, "Columns": 8, "Rows": 1, "BlackIs1": False}]}, b"26 A0 01 00 10 >"))
    icc = d.add(Stream({"N": 3, "Alternate": N("DeviceRGB")}, b"\x00" * 16))
    lut = d.add(Stream({}, bytes(range(6))))
    inner = d.add(Stream({"Type": N("XObject"), "Subtype": N("Form"), "BBox": [0, 0, 50, 50], "Matrix": [1, 0, 0, 1, 3, 3],
                          "Resources": {"XObject": {"Deep": im2}}}, b"0 0 10 10 re f q 2 0 0 2 0 0 cm /Deep Do Q"))
    form = d.add(Stream({"Type": N("XObject"), "Subtype": N("Form"), "FormType": 1, "BBox": [0, 0, 100, 100], "Matrix": [2, 0, 0, 2, 10, 10],
                         "Resources": {"Font": {"F9": f1}, "XObject": {"In": inner}}}, b"BT /F9 5 Tf (Form) Tj ET /In Do"))
    gs = d.add({"Type": N("ExtGState"), "LW": 2, "D": [[1, 2], 0]})
    res = {"Font": {"F1": f1}, "XObject": {"Im1": im1, "Im2": im2, "Im3": im3, "Im4": im4, "Fm": form},
           "ColorSpace": {"CS0": [N("ICCBased"), icc], "CS1": [N("Indexed"), N("DeviceRGB"), 1, lut], "CS2": [N("Separation"), N("Spot"), N("DeviceCMYK"), {"FunctionType": 2, "Domain": [0, 1], "C0": [0, 0, 0, 0], "C1": [0, 1, 0, 0], "N": 1}],
                          "CS3": [N("DeviceN"), [N("A"), N("B")], N("DeviceCMYK"), {"FunctionType": 2, "Domain": [0, 1, 0, 1], "N": 1}], "CS4": N("Pattern")},
           "ExtGState": {"GS0": gs}, "Properties": {"MC0": {"Type": N("OCG"), "Name": b"Layer"}}, "Pattern": {"P0": {"PatternType": 2, "Shading": {"ShadingType": 2, "ColorSpace": N("DeviceRGB"), "Coords": [0, 0, 1, 1]}}},
           "Shading": {"Sh0": {"ShadingType": 2, "ColorSpace": N("DeviceGray"), "Coords": [0, 0, 1, 1], "Function": {"FunctionType": 2, "Domain": [0, 1], "N": 1}}}}
    content = ser_ops(GFX_OPS)
    cat = _skeleton(d, content, res)
    # "ops": the content stream's object number; C13's operator/operand faults re-serialise a damaged copy of GFX_OPS into it
    return d, {"root": cat, "ops": max(n for n, (g, o) in d.objs.items() if isinstance(o, Stream) and o.data == content)}


def seed_crypt() -> Tuple[Doc, Dict[str, Any]]:
    """RC4 40-bit (V1 R2) encrypted document, empty user password; also an incremental-update style Info"""
    d = Doc()
    docid = b"0123456789abcdef"
    owner, user, P = b"owner", b"", -44
    okey = hashlib.md5((owner + PAD)[:32]).digest()[:5]
    O = rc4(okey, (user + PAD)[:32])
    import struct
    key = hashlib.md5((user + PAD)[:32] + O + struct.pack("<i", P) + docid).digest()[:5]
    U = rc4(key, PAD)

    def enc(num: int, gen: int, data: bytes) -> bytes:
        k = hashlib.md5(key + struct.pack("<I", num)[:3] + struct.pack("<I", gen)[:2]).digest()[:10]
        return rc4(k, data)

    f1 = d.add({"Type": N("Font"), "Subtype": N("Type1"), "BaseFont": N("Helvetica")})
    cat, pages, page = d.reserve(), d.reserve(), d.reserve()
    cnum = d.reserve()
    d.set(cnum, Stream({"Filter": N("FlateDecode")}, enc(cnum.num, 0, zlib.compress(b"BT /F1 12 Tf 20 100 Td (Secret) Tj ET"))))
    info = d.reserve()
    d.set(info, {"Title": enc(info.num, 0, b"Top secret")})
    d.set(cat, {"Type": N("Catalog"), "Pages": pages, "Lang": enc(cat.num, 0, b"en")})
    d.set(pages, {"Type": N("Pages"), "Kids": [page], "Count": 1})
    d.set(page, {"Type": N("Page"), "Parent": pages, "MediaBox": [0, 0, 300, 300], "Resources": {"Font": {"F1": f1}}, "Contents": cnum})
    encd = d.add({"Filter": N("Standard"), "V": 1, "R": 2, "O": HexStr(O), "U": HexStr(U), "P": P})
    return d, {"root": cat, "info": info, "trailer_extra": {"Encrypt": encd, "ID": [HexStr(docid), HexStr(docid)]}}


class _SelfOffset:
    def __init__(self, delta=0):
        self.delta = delta

    def __repr__(self):
        return "SELF_OFFSET%+d" % self.delta if self.delta else "SELF_OFFSET"


def seed_filters() -> Tuple[Doc, Dict[str, Any]]:
    """content streams through every text-reachable filter: LZW, RunLength, ASCII85, ASCIIHex, Flate with PNG and TIFF predictors, a chain"""
    from mc.refs import filters as F

    d = Doc()
    f1 = d.add({"Type": N("Font"), "Subtype": N("Type1"), "BaseFont": N("Helvetica")})

    def piece(i: int, word: bytes) -> bytes:
        return b"BT /F1 9 Tf 10 %d Td (%s) Tj ET\n" % (280 - 20 * i, word)

    p = [piece(i, w) for i, w in enumerate([b"Lzw", b"Run", b"A85", b"Hex", b"Png", b"Tiff", b"Chain"])]
    png_cols = len(p[4])
    png = F.png_predict(p[4] * 2, 1, png_cols, 8, [2, 1])  # two rows: Up, Sub
    tiff = F.tiff_predict(p[5], 1, len(p[5]))
    streams = [
        Stream({"Filter": N("LZWDecode")}, F.lzw_encode(p[0])),
        Stream({"Filter": N("RunLengthDecode")}, F.rl_encode(p[1])),
        Stream({"Filter": N("ASCII85Decode")}, F.a85_encode(p[2])),
        Stream({"Filter": [N("ASCIIHexDecode")]}, F.ahx_encode(p[3])),
        Stream({"Filter": N("FlateDecode"), "DecodeParms": {"Predictor": 12, "Colors": 1, "Columns": png_cols, "BitsPerComponent": 8}}, zlib.compress(png)),
        Stream({"Filter": N("LZWDecode"), "DecodeParms": {"Predictor": 2, "Colors": 1, "Columns": len(p[5]), "BitsPerComponent": 8}}, F.lzw_encode(tiff)),
        Stream({"Filter": [N("AHx"), N("A85"), N("Fl")], "DecodeParms": [None, None, {"Predictor": 1}]}, F.ahx_encode(F.a85_encode(zlib.compress(p[6])))),
    ]
    cat = _skeleton(d, b"", {"Font": {"F1": f1}})
    page = next(o for _, o in d.objs.values() if isinstance(o, dict) and o.get("Type") == N("Page"))
    page["Contents"] = [d.add(s) for s in streams]
    return d, {"root": cat}


SELF_OFFSET = _SelfOffset()  # trailer value meaning "the offset of this very cross-reference section"
SELF_OFFSET_WS = _SelfOffset(-1)  # ... one byte early, on the end-of-line in front of the xref keyword (the section still parses)


def write_incr(d: Doc, kw: Dict[str, Any]) -> bytes:
    """Base revision (objects < 1000, classic table) + one incremental update (objects >= 1000 are
    written as number-1000 in the update section, which has /Prev)."""
    from mc.pdfgen import DROP, ser, xref_table

    base = Doc(d.header)
    upd = Doc(b"")
    for num, (gen, obj) in d.objs.items():
        if num < 1000:
            base.objs[num] = (gen, obj)
        else:
            upd.objs[num - 1000] = (gen, obj)
    b = base.write(kw["root"], info=kw.get("info"))
    prev = int(b[b.rindex(b"startxref") + 10:].split()[0])
    body, offs = upd.body(start=len(b), header=b"")
    xoff = len(b) + len(body)
    tr: Dict[str, Any] = {"Size": max(list(base.objs) + list(upd.objs)) + 1, "Root": kw["root"], "Prev": prev}
    if kw.get("info"):
        tr["Info"] = kw["info"]
    tr.update(kw.get("trailer_extra") or {})
    tr = {k: (xoff + v.delta if isinstance(v, _SelfOffset) else v) for k, v in tr.items() if v is not DROP}
    return b + body + xref_table(offs, free0=False) + b"trailer\n" + ser(tr) + b"\nstartxref\n%d\n%%%%EOF\n" % xoff


def seed_incr() -> Tuple[Doc, Dict[str, Any]]:
    """classic file with one incremental update: a page's content and the Info dictionary are redefined"""
    d = Doc()
    f1 = d.add({"Type": N("Font"), "Subtype": N("Type1"), "BaseFont": N("Helvetica")})
    cat = _skeleton(d, b"BT /F1 12 Tf 20 100 Td (Old) Tj ET", {"Font": {"F1": f1}})
    info = d.add({"Title": b"old"})
    content = next(n for n, (_, o) in d.objs.items() if isinstance(o, Stream))
    d.objs[1000 + content] = (0, Stream({}, b"BT /F1 12 Tf 20 100 Td (New) Tj ET"))
    d.objs[1000 + info.num] = (0, {"Title": b"new", "Author": b"\xfe\xff\x00A"})
    return d, {"root": cat, "info": info, "writer": write_incr}


def _seed_encrypted(V: int, R: int, bits: int, cfm: str) -> Tuple[Doc, Dict[str, Any]]:
    from mc.refs.security import Cfg, Handler

    docid = b"0123456789abcdef"
    h = Handler(Cfg(V, R, bits, cfm), "", "owner", -44, docid)
    d = Doc()
    f1 = d.add({"Type": N("Font"), "Subtype": N("Type1"), "BaseFont": N("Helvetica")})
    cat, pages, page, cnum, info, meta = (d.reserve() for _ in range(6))
    d.set(cnum, Stream({"Filter": N("FlateDecode")}, h.encrypt(cnum.num, 0, zlib.compress(b"BT /F1 12 Tf 20 100 Td (Secret AES) Tj ET"))))
    d.set(info, {"Title": HexStr(h.encrypt(info.num, 0, b"Top secret")), "Keywords": HexStr(h.encrypt(info.num, 0, b"0123456789abcdef"))})
    d.set(meta, Stream({"Type": N("Metadata"), "Subtype": N("XML")}, h.encrypt(meta.num, 0, b"<x:xmpmeta/>")))
    d.set(cat, {"Type": N("Catalog"), "Pages": pages, "Metadata": meta, "Lang": HexStr(h.encrypt(cat.num, 0, b"en"))})
    d.set(pages, {"Type": N("Pages"), "Kids": [page], "Count": 1})
    d.set(page, {"Type": N("Page"), "Parent": pages, "MediaBox": [0, 0, 300, 300], "Resources": {"Font": {"F1": f1}}, "Contents": cnum})
    encd = d.add(h.encrypt_dict())
    return d, {"root": cat, "info": info, "trailer_extra": {"Encrypt": encd, "ID": [HexStr(docid), HexStr(docid)]}}


def seed_aes128() -> Tuple[Doc, Dict[str, Any]]:
    """AES-128 (V4 R4, crypt filter AESV2), empty user password"""
    return _seed_encrypted(4, 4, 128, "AESV2")


def seed_aes256() -> Tuple[Doc, Dict[str, Any]]:
    """AES-256 (V5 R6, crypt filter AESV3), empty user password"""
    return _seed_encrypted(5, 6, 256, "AESV3")


def seed_ttf() -> Tuple[Doc, Dict[str, Any]]:
    """CIDFontType2 with an embedded TrueType program (cmap formats 4 and 12) and Adobe-Identity; simple TrueType font with FontFile2"""
    from props.c07_cidfont import ttf_file, ttf_fmt4, ttf_fmt12

    d = Doc()
    segs = [(0x0041, 0x0043, "delta", 5), (0x0061, 0x0063, "array", [9, 10, 11]), (0x3042, 0x3044, "delta", 20)]
    prog = ttf_file([(3, 1, ttf_fmt4(segs)), (3, 10, ttf_fmt12([(0x1F600, 0x1F601, 40), (0x10FFFE, 0x10FFFF, 42)]))])
    ff = d.add(Stream({"Length1": len(prog)}, prog))
    fd = d.add({"Type": N("FontDescriptor"), "FontName": N("AAAAAA+Ttf"), "Flags": 4, "FontBBox": [0, -200, 1000, 800], "Ascent": 800, "Descent": -200,
                "ItalicAngle": 0, "StemV": 80, "CapHeight": 700, "FontFile2": ff})
    df = d.add({"Type": N("Font"), "Subtype": N("CIDFontType2"), "BaseFont": N("AAAAAA+Ttf"), "CIDSystemInfo": {"Registry": b"Adobe", "Ordering": b"Identity", "Supplement": 0},
                "FontDescriptor": fd, "DW": 500, "W": [5, [600, 700]], "CIDToGIDMap": N("Identity")})
    f1 = d.add({"Type": N("Font"), "Subtype": N("Type0"), "BaseFont": N("AAAAAA+Ttf"), "Encoding": N("Identity-H"), "DescendantFonts": [df]})
    f2 = d.add({"Type": N("Font"), "Subtype": N("TrueType"), "BaseFont": N("AAAAAA+Ttf"), "FirstChar": 65, "LastChar": 66, "Widths": [500, 600], "FontDescriptor": fd})
    # the same program behind a CIDToGIDMap STREAM (CID 1..4 -> glyphs 5, 6, 9, 20), added after seeded defect C13_10 was missed
    c2g = d.add(Stream({}, b"".join(g.to_bytes(2, "big") for g in (0, 5, 6, 9, 20))))
    df3 = d.add({"Type": N("Font"), "Subtype": N("CIDFontType2"), "BaseFont": N("AAAAAA+Ttf"), "CIDSystemInfo": {"Registry": b"Adobe", "Ordering": b"Identity", "Supplement": 0},
                 "FontDescriptor": fd, "DW": 500, "CIDToGIDMap": c2g})
    f3 = d.add({"Type": N("Font"), "Subtype": N("Type0"), "BaseFont": N("AAAAAA+Ttf"), "Encoding": N("Identity-H"), "DescendantFonts": [df3]})
    cat = _skeleton(d, b"BT /F1 10 Tf 10 200 Td <00050006000900140028> Tj /F2 10 Tf 0 -20 Td (AB) Tj /F3 10 Tf 0 -20 Td <0001000200030004> Tj ET", {"Font": {"F1": f1, "F2": f2, "F3": f3}})
    return d, {"root": cat}


def write(d: Doc, kw: Dict[str, Any], mutate: Any = None) -> bytes:
    kw = dict(kw)
    w = kw.pop("writer", None)
    kw.pop("ops", None)
    if w is not None:
        return w(d, kw)
    return d.write(mutate=mutate, **kw)


SEEDS = {
    "pages": seed_pages,
    "fonts": seed_fonts,
    "cid": seed_cid,
    "xref": seed_xref,
    "graphics": seed_graphics,
    "crypt": seed_crypt,
    "incr": seed_incr,
    "aes128": seed_aes128,
    "aes256": seed_aes256,
    "ttf": seed_ttf,
    "filters": seed_filters,
    "xrefidx": seed_xrefidx,
}


def build(name: str) -> bytes:
    d, kw = SEEDS[name]()
    return write(d, kw)
