"""Strict reference reader for Windows BMP files (BITMAPFILEHEADER + BITMAPINFOHEADER,
uncompressed, 1/8/24 bits per pixel), written from the format description, not from
pdfminer's writer.

``read_bmp(data)`` -> (problems, width, height, rows) where rows is a top-down list of rows,
each a list of (r, g, b) tuples, and ``problems`` a list of (kind, detail).  Structural
problems that make the pixel array unreadable return rows=None.  A file shorter than its
header declares is reported as ``truncated`` and -- only so that the caller can diagnose
further -- read as if the missing tail were zero bytes.
"""
from __future__ import annotations

import struct
from typing import List, Optional, Tuple

RGB = Tuple[int, int, int]


def stride_for(width: int, bitcount: int) -> int:
    # each scan line is padded to a 32-bit boundary
    return ((width * bitcount + 31) // 32) * 4


def read_bmp(data: bytes):
    problems: List[Tuple[str, object]] = []
    if len(data) < 54:
        return [("too-short-for-headers", len(data))], None, None, None
    sig, bf_size, res1, res2, off_bits = struct.unpack_from("<2sIHHI", data, 0)
    (bi_size, width, height, planes, bitcount, compression, size_image, xppm, yppm, clr_used, clr_important) = struct.unpack_from("<IiiHHIIiiII", data, 14)
    if sig != b"BM":
        return [("bad-signature", sig)], None, None, None
    if res1 or res2:
        problems.append(("reserved-nonzero", (res1, res2)))
    if bi_size != 40:
        return problems + [("unsupported-info-header", bi_size)], None, None, None
    if planes != 1:
        problems.append(("planes", planes))
    if compression != 0:
        return problems + [("compressed", compression)], None, None, None
    if bitcount not in (1, 8, 24):
        return problems + [("bitcount", bitcount)], None, None, None
    if width <= 0 or height == 0:
        return problems + [("dimensions", (width, height))], None, None, None
    bottom_up = height > 0
    h = abs(height)
    if bitcount <= 8:
        ncol = clr_used or (1 << bitcount)
        if ncol > (1 << bitcount):
            problems.append(("palette-too-large", ncol))
    else:
        ncol = clr_used  # optional optimisation palette; normally 0
    pal_end = 14 + 40 + 4 * ncol
    if off_bits < pal_end:
        return problems + [("pixel-offset-inside-headers", (off_bits, pal_end))], None, None, None
    if len(data) < pal_end:
        return problems + [("palette-truncated", len(data))], None, None, None
    palette: List[RGB] = []
    for i in range(ncol):
        b, g, r, _x = data[54 + 4 * i : 58 + 4 * i]
        palette.append((r, g, b))
    stride = stride_for(width, bitcount)
    need = off_bits + stride * h
    if size_image not in (0, stride * h):
        problems.append(("biSizeImage", (size_image, stride * h)))
    if bf_size != len(data):
        problems.append(("bfSize-differs-from-file-length", (bf_size, len(data))))
    if len(data) < need:
        problems.append(("truncated", (len(data), need)))
        data = data + b"\x00" * (need - len(data))
    rows: List[List[RGB]] = []
    for y in range(h):
        row = data[off_bits + y * stride : off_bits + (y + 1) * stride]
        px: List[RGB] = []
        if bitcount == 24:
            for x in range(width):
                b, g, r = row[3 * x : 3 * x + 3]
                px.append((r, g, b))
        elif bitcount == 8:
            for x in range(width):
                i = row[x]
                if i >= len(palette):
                    problems.append(("palette-index-out-of-range", i))
                    px.append((-1, -1, -1))
                else:
                    px.append(palette[i])
        else:
            for x in range(width):
                i = (row[x >> 3] >> (7 - (x & 7))) & 1
                if i >= len(palette):
                    problems.append(("palette-index-out-of-range", i))
                    px.append((-1, -1, -1))
                else:
                    px.append(palette[i])
        rows.append(px)
    if bottom_up:
        rows.reverse()
    return problems, width, h, rows


# ---- hand-assembled files used to validate the reader (see selfcheck)
def _hand_bmp_24() -> Tuple[bytes, List[List[RGB]]]:
    # 2x2, bottom-up: file rows are (bottom) then (top); pixels B,G,R; stride 8 (6 + 2 pad)
    top = [(255, 0, 0), (0, 255, 0)]
    bottom = [(0, 0, 255), (1, 2, 3)]
    pix = bytes([255, 0, 0, 3, 2, 1, 0, 0]) + bytes([0, 0, 255, 0, 255, 0, 0, 0])
    hdr = b"BM" + struct.pack("<IHHI", 54 + 16, 0, 0, 54) + struct.pack("<IiiHHIIiiII", 40, 2, 2, 1, 24, 0, 16, 0, 0, 0, 0)
    return hdr + pix, [top, bottom]


def _hand_bmp_1() -> Tuple[bytes, List[List[RGB]]]:
    # 9x1, two-colour palette (black, white), bits MSB first: 1 0 1 0 0 0 0 1 | 1
    pal = bytes([0, 0, 0, 0, 255, 255, 255, 0])
    pix = bytes([0b10100001, 0b10000000, 0, 0])
    hdr = b"BM" + struct.pack("<IHHI", 62 + 4, 0, 0, 62) + struct.pack("<IiiHHIIiiII", 40, 9, 1, 1, 1, 0, 4, 0, 0, 2, 0)
    w, k = (255, 255, 255), (0, 0, 0)
    return hdr + pal + pix, [[w, k, w, k, k, k, k, w, w]]


def _hand_bmp_8() -> Tuple[bytes, List[List[RGB]]]:
    # 3x2 with a 4-entry palette, top-down (negative height), stride 4
    pal = bytes([10, 20, 30, 0, 40, 50, 60, 0, 70, 80, 90, 0, 0, 0, 0, 0])
    pix = bytes([0, 1, 2, 0]) + bytes([2, 2, 3, 0])
    hdr = b"BM" + struct.pack("<IHHI", 54 + 16 + 8, 0, 0, 70) + struct.pack("<IiiHHIIiiII", 40, 3, -2, 1, 8, 0, 0, 0, 0, 4, 0)
    p = [(30, 20, 10), (60, 50, 40), (90, 80, 70), (0, 0, 0)]
    return hdr + pal + pix, [[p[0], p[1], p[2]], [p[2], p[2], p[3]]]


def selfcheck() -> None:
    for mk in (_hand_bmp_24, _hand_bmp_1, _hand_bmp_8):
        data, want = mk()
        problems, w, h, rows = read_bmp(data)
        assert not problems, (mk.__name__, problems)
        assert rows == want, (mk.__name__, rows, want)
        # strictness: a file one byte short is reported
        problems, *_ = read_bmp(data[:-1])
        assert {k for k, _ in problems} >= {"bfSize-differs-from-file-length", "truncated"}, problems
