"""Reference writer + model for page trees (C04).  Independent of pdfminer.

A tree is a list of nodes in preorder: {"kind": "Pages"|"Page", "parent": idx|None, "kids": [idx...]}.
``attrs[i]`` maps an inheritable key to a value token (or is missing/None = absent at node i):

    Resources : "A" | "B" | "E"      (font resource /F1 -> FontA / FontB; "E" = an explicit empty dictionary << >>)
    MediaBox  : (x0, y0, x1, y1)
    CropBox   : (x0, y0, x1, y1)
    Rotate    : int (multiple of 90)

The model implements ISO 32000-1 7.7.3.3/7.7.3.4 (depth-first Kids order; inheritable attributes from the
nearest ancestor that defines them) and 8.3.2.3 + Table 30 /Rotate (clockwise) for the page coordinate system.
"""
from __future__ import annotations

import itertools
from typing import Any, Dict, Iterator, List, Optional, Sequence, Tuple

from mc.explore import ordered_trees
from mc.pdfgen import Doc, N, Ref, Stream, widths_font

INHERITABLE = ("Resources", "MediaBox", "CropBox", "Rotate")
CATALOG, FONT_A, FONT_B = 1, 2, 3
NODE_BASE, CONTENT_BASE, VALUE_BASE = 10, 40, 70
FONT_NAMES = {"A": "FontA", "B": "FontB"}


# ------------------------------------------------------------------------- trees
def shape_nodes(shape: Tuple) -> List[Dict[str, Any]]:
    nodes: List[Dict[str, Any]] = []

    def rec(t, parent):
        idx = len(nodes)
        nodes.append({"parent": parent, "kids": [], "kind": "Pages"})
        for c in t:
            nodes[idx]["kids"].append(rec(c, idx))
        return idx

    rec(shape, None)
    return nodes


def typed_trees(n: int, all_pages_only: bool = False) -> Iterator[List[Dict[str, Any]]]:
    """All ordered rooted trees with n nodes; the root is /Pages, every other leaf is a /Page or an empty /Pages."""
    for shape in ordered_trees(n):
        base = shape_nodes(shape)
        leaves = [i for i, nd in enumerate(base) if not nd["kids"] and i != 0]
        masks = [(0,) * len(leaves)] if all_pages_only else itertools.product((0, 1), repeat=len(leaves))
        for mask in masks:
            nodes = [dict(nd, kids=list(nd["kids"])) for nd in base]
            for i, m in zip(leaves, mask):
                nodes[i]["kind"] = "Pages" if m else "Page"
            yield nodes


def depth(nodes, i) -> int:
    d = 0
    while nodes[i]["parent"] is not None:
        i = nodes[i]["parent"]
        d += 1
    return d


# ------------------------------------------------------------------------- model
def walk(nodes, attrs, variant: str = "spec"):
    """Reference walk.  Returns (pages, judged_full).

    pages = [(node index, {attr: value token or None})] in depth-first Kids order, every node visited at most once
    (first encounter).  judged_full is False when a node was first reached through a Kids entry of a node that is
    not its /Parent *and* would be reached again later (order/inheritance then depend on a reading the statement
    does not fix).

    variant: "spec" nearest defining ancestor; the others are *diagnostic* mis-readings used only to name a
    violation's cause: "root" (inherit only from the root), "parent-wins" (an ancestor's value overrides the node's
    own), "own-only" (nothing inherited).
    """
    out: List[Tuple[int, Dict[str, Any]]] = []
    visited = set()
    ambiguous = [False]
    rootvals = {k: (attrs[0] or {}).get(k) for k in INHERITABLE}

    def rec(i, inh, via):
        if i in visited:
            return
        if nodes[i]["parent"] != via and via is not None:
            # reached through a foreign Kids entry before (or instead of) its own parent
            ambiguous[0] = True
        visited.add(i)
        own = {k: v for k, v in (attrs[i] or {}).items() if v is not None}
        if variant == "spec":
            eff = {**inh, **own}
        elif variant == "parent-wins":
            eff = {**own, **inh}
        elif variant == "root":
            eff = {**{k: v for k, v in rootvals.items() if v is not None}, **own}
        elif variant == "own-only":
            eff = dict(own)
        else:
            raise ValueError(variant)
        if nodes[i]["kind"] == "Page":
            out.append((i, {k: eff.get(k) for k in INHERITABLE}))
            return
        for c in nodes[i]["kids"]:
            rec(c, eff, i)

    rec(0, {}, None)
    return out, not ambiguous[0]


def reduce_rotate(r: Optional[int]) -> int:
    return (r or 0) % 360


def page_geometry(mediabox: Sequence[Any], rotate: int, pt: Tuple[Any, Any], normalise: bool = True):
    """(LTPage bbox, matrix of a glyph shown with Tm = [1 0 0 1 X Y]) for the page coordinate system in which the
    MediaBox is moved to the origin and turned clockwise by ``rotate``."""
    x0, y0, x1, y1 = mediabox
    if normalise:
        # 7.9.5: a rectangle may be given by any two diagonally opposite corners
        x0, x1 = min(x0, x1), max(x0, x1)
        y0, y1 = min(y0, y1), max(y0, y1)
    w, h = abs(x1 - x0), abs(y1 - y0)
    X, Y = pt
    r = rotate % 360
    if r == 0:
        return (0, 0, w, h), (1, 0, 0, 1, X - x0, Y - y0)
    if r == 90:  # (u, v) -> (v, w - u)
        return (0, 0, h, w), (0, -1, 1, 0, Y - y0, x1 - X)
    if r == 180:  # (u, v) -> (w - u, h - v)
        return (0, 0, w, h), (-1, 0, 0, -1, x1 - X, y1 - Y)
    if r == 270:  # (u, v) -> (h - v, u)
        return (0, 0, h, w), (0, 1, -1, 0, y1 - Y, X - x0)
    raise ValueError(rotate)


def page_point(k: int) -> Tuple[int, int]:
    return (30 + 8 * k, 40 + 4 * k)


def page_letter(k: int) -> str:
    return chr(65 + k)


# ------------------------------------------------------------------------ writer
RECT_SIZE = (16, 4)  # filled rectangle drawn with its lower-left corner at the page's glyph point (rect=True)


def build(nodes, attrs, spell=lambda i, k: 0, contents: bool = True, rect: bool = False, extra=None, empty=None) -> bytes:
    """Serialise.  spell(i, key) -> 0 direct value, 1 the value is an indirect object, 2 the parts of the value are
    indirect objects (array elements / the /Font sub-dictionary; Rotate: indirect)."""
    d = Doc()
    letters = "ABCDEFGHIJKLMNOPQRSTUVWXYZ"
    d.add(widths_font(FONT_NAMES["A"], 65, [500] * 26), num=FONT_A)
    d.add(widths_font(FONT_NAMES["B"], 65, [250] * 26), num=FONT_B)
    nxt = [VALUE_BASE]

    def ind(v):
        n = nxt[0]
        nxt[0] += 1
        d.add(v, num=n)
        return Ref(n)

    def value(i, k, tok):
        mode = spell(i, k)
        if k == "Resources" and tok == "E":
            v: Any = {}
        elif k == "Resources":
            font = {"F1": Ref(FONT_A if tok == "A" else FONT_B)}
            v = {"Font": ind(font) if mode == 2 else font, "ProcSet": [N("PDF"), N("Text")]}
        elif k in ("MediaBox", "CropBox"):
            v = [ind(x) if mode == 2 else x for x in tok]
        else:
            v = tok
            if mode == 2:
                mode = 1
        return ind(v) if mode == 1 else v

    order, _ = walk(nodes, attrs)
    seq = {i: k for k, (i, _) in enumerate(order)}
    counts = {}

    def count(i, seen):
        if i in seen:
            return 0
        seen = seen | {i}
        if nodes[i]["kind"] == "Page":
            return 1
        return sum(count(c, seen) for c in nodes[i]["kids"])

    for i, nd in enumerate(nodes):
        obj: Dict[str, Any] = {"Type": N(nd["kind"])}
        if nd["parent"] is not None:
            obj["Parent"] = Ref(NODE_BASE + nd["parent"])
        if nd["kind"] == "Pages":
            obj["Kids"] = [Ref(NODE_BASE + c) for c in nd["kids"]]
            obj["Count"] = count(i, frozenset())
        else:
            k = seq.get(i, 25)
            X, Y = page_point(k)
            kind = (empty or {}).get(i)
            if kind == "emptyarray":
                obj["Contents"] = []
            elif kind == "nonpainting":
                # sets state, builds a path and drops it: nothing is painted
                d.add(Stream({}, b"q 1 0 0 1 5 5 cm 0.5 g 10 10 m 20 20 l n Q"), num=CONTENT_BASE + i)
                obj["Contents"] = Ref(CONTENT_BASE + i)
            elif kind == "nocontents":
                pass
            elif contents:
                body = b"BT /F1 8 Tf 1 0 0 1 %d %d Tm (%s) Tj ET" % (X, Y, page_letter(k).encode())
                if rect:
                    body += b" %d %d %d %d re f" % (X, Y, RECT_SIZE[0], RECT_SIZE[1])
                if extra and i in extra:
                    # operators before / after the page's own glyph (extra[node] = (prefix, suffix))
                    body = extra[i][0] + b" " + body + b" " + extra[i][1]
                d.add(Stream({}, body), num=CONTENT_BASE + i)
                obj["Contents"] = Ref(CONTENT_BASE + i)
        for k2 in INHERITABLE:
            tok = (attrs[i] or {}).get(k2)
            if tok is not None:
                obj[k2] = value(i, k2, tok)
        d.add(obj, num=NODE_BASE + i)
    d.add({"Type": N("Catalog"), "Pages": Ref(NODE_BASE)}, num=CATALOG)
    return d.write(Ref(CATALOG))


def rect_bbox(matrix, size=RECT_SIZE):
    """Bounding box, in the page coordinate system, of the rectangle [X Y w h] given the matrix
    (a, b, c, d, e, f) that maps user space to the page coordinate system with (X, Y) -> (e, f)."""
    a, b, c, d, e, f = matrix
    w, h = size
    xs = [e + a * dx + c * dy for dx in (0, w) for dy in (0, h)]
    ys = [f + b * dx + d * dy for dx in (0, w) for dy in (0, h)]
    return (min(xs), min(ys), max(xs), max(ys))


# ----------------------------------------------------------------- deep trees
# Everything below is iterative: the reference must not depend on the interpreter's recursion limit.
DEEP_ATTR_VALUES = {
    "Resources": ("A", "B"),
    "MediaBox": ((0, 0, 200, 100), (10, 20, 210, 120)),
    "CropBox": ((5, 5, 50, 50), (20, 30, 100, 90)),
    "Rotate": (180, 0, 360),  # text stays on one line, so a page's label survives layout analysis
}


def deep_chain(d: int, variant: str, order: str, attrmode: str, cycle: bool):
    """A chain of d nested /Pages nodes (node k is the only /Pages child of node k-1).

    variant "bottom": one /Page below the deepest node.  variant "every": one /Page hanging off every level,
    listed before ("page-first") or after ("deep-first") the deeper /Pages node in Kids.
    attrmode "root": the four inheritable attributes only on the root; "every100": on every level k with
    k % 100 == 0, values cycling with k // 100 (the nearest such ancestor wins).
    cycle: the deepest node's Kids additionally point back at the root and at the node in the middle."""
    nodes: List[Dict[str, Any]] = [{"kind": "Pages", "parent": (k - 1 if k else None), "kids": []} for k in range(d)]
    attrs: List[Dict[str, Any]] = [{} for _ in range(d)]
    for k in range(d):
        if k + 1 < d:
            nodes[k]["kids"].append(k + 1)
    for k in range(d):
        if variant == "every" or k == d - 1:
            nodes.append({"kind": "Page", "parent": k, "kids": []})
            attrs.append({})
            i = len(nodes) - 1
            if order == "page-first":
                nodes[k]["kids"].insert(0, i)
            else:
                nodes[k]["kids"].append(i)
    if cycle:
        nodes[d - 1]["kids"] += [0, d // 2]
    for k in range(d):
        if k == 0 or (attrmode == "every100" and k % 100 == 0):
            j = k // 100
            for key, vals in DEEP_ATTR_VALUES.items():
                attrs[k][key] = vals[j % len(vals)]
    return nodes, attrs


def walk_iter(nodes, attrs):
    """Iterative form of ``walk(nodes, attrs, "spec")``: depth-first Kids order, nearest defining ancestor, every node
    visited at most once (first encounter).  Returns (pages, judged_full)."""
    out: List[Tuple[int, Dict[str, Any]]] = []
    visited = set()
    ambiguous = False
    stack: List[Tuple[int, Dict[str, Any], Optional[int]]] = [(0, {}, None)]
    while stack:
        i, inh, via = stack.pop()
        if i in visited:
            continue
        if via is not None and nodes[i]["parent"] != via:
            ambiguous = True
        visited.add(i)
        own = {k: v for k, v in (attrs[i] or {}).items() if v is not None}
        eff = {**inh, **own} if own else inh
        if nodes[i]["kind"] == "Page":
            out.append((i, {k: eff.get(k) for k in INHERITABLE}))
            continue
        for c in reversed(nodes[i]["kids"]):
            stack.append((c, eff, i))
    return out, not ambiguous


def deep_label(k: int) -> str:
    """Three capital letters XYZ with X < Z, distinct per k < 8450: a label read right-to-left (Rotate 180) can be told
    from every other label (see canon_label)."""
    pairs = [(x, z) for x in range(26) for z in range(x + 1, 26)]
    x, z = pairs[k // 26]
    return chr(65 + x) + chr(65 + k % 26) + chr(65 + z)


def canon_label(s: str) -> str:
    return min(s, s[::-1])


def build_deep(nodes, attrs) -> bytes:
    """Serialise a (possibly very deep) tree; all values direct; page k (in reference order) shows deep_label(k)."""
    d = Doc()
    d.add(widths_font(FONT_NAMES["A"], 65, [500] * 26), num=FONT_A)
    d.add(widths_font(FONT_NAMES["B"], 65, [250] * 26), num=FONT_B)
    n = len(nodes)
    order, _ = walk_iter(nodes, attrs)
    seq = {i: k for k, (i, _) in enumerate(order)}
    # /Count = leaf pages below, ignoring entries that do not point at a node's own child (cycle entries)
    count = [1 if nd["kind"] == "Page" else 0 for nd in nodes]
    for i in sorted(range(n), key=lambda i: -_depth_iter(nodes, i)):
        p = nodes[i]["parent"]
        if p is not None:
            count[p] += count[i]
    for i, nd in enumerate(nodes):
        obj: Dict[str, Any] = {"Type": N(nd["kind"])}
        if nd["parent"] is not None:
            obj["Parent"] = Ref(NODE_BASE + nd["parent"])
        if nd["kind"] == "Pages":
            obj["Kids"] = [Ref(NODE_BASE + c) for c in nd["kids"]]
            obj["Count"] = count[i]
        else:
            k = seq[i]
            body = b"BT /F1 8 Tf 1 0 0 1 30 40 Tm (%s) Tj ET" % deep_label(k).encode()
            d.add(Stream({}, body), num=NODE_BASE + n + i)
            obj["Contents"] = Ref(NODE_BASE + n + i)
        for k2 in INHERITABLE:
            tok = (attrs[i] or {}).get(k2)
            if tok is None:
                continue
            if k2 == "Resources":
                obj[k2] = {"Font": {"F1": Ref(FONT_A if tok == "A" else FONT_B)}, "ProcSet": [N("PDF"), N("Text")]}
            elif k2 in ("MediaBox", "CropBox"):
                obj[k2] = list(tok)
            else:
                obj[k2] = tok
        d.add(obj, num=NODE_BASE + i)
    d.add({"Type": N("Catalog"), "Pages": Ref(NODE_BASE)}, num=CATALOG)
    return d.write(Ref(CATALOG))


_DEPTH_CACHE: Dict[int, List[int]] = {}


def _depth_iter(nodes, i) -> int:
    key = id(nodes)
    if key not in _DEPTH_CACHE or len(_DEPTH_CACHE[key]) != len(nodes):
        _DEPTH_CACHE.clear()
        dep = [0] * len(nodes)
        # parents precede children in deep_chain's numbering only for /Pages nodes; compute by following parents
        for j in range(len(nodes)):
            x, c = j, 0
            p = nodes[j]["parent"]
            dep[j] = (dep[p] + 1) if (p is not None and p < j) else None  # type: ignore[assignment]
            if dep[j] is None:
                while nodes[x]["parent"] is not None:
                    x = nodes[x]["parent"]
                    c += 1
                dep[j] = c
        _DEPTH_CACHE[key] = dep
    return _DEPTH_CACHE[key][i]
