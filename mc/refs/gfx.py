"""Shared pieces for the content-stream interpreter properties (C05 text, C16 paths).

* exact affine algebra in ``fractions.Fraction`` written from ISO 32000-1 8.3.4
  (row vectors: ``[x' y' 1] = [x y 1] x M``) -- no pdfminer code is used;
* operator events -> content-stream tokens -> bytes;
* ``Bench``: one resource document parsed once per worker, then every explored
  program is executed by the real ``PDFPageInterpreter.process_page`` on the real
  ``PDFPage`` whose ``contents`` are replaced by in-memory ``PDFStream`` objects
  (fast seam), or through a complete PDF file written by ``mc.pdfgen`` (full seam);
* canonical form of the real interpreter state (for explicit-state dedup);
* ``explore``: breadth-first search over event histories with dedup on
  (real state, model state), frontier probes, and measured counters.
"""
from __future__ import annotations

import collections
import io
import traceback
from fractions import Fraction as Fr
from typing import Any, Callable, Dict, Iterable, List, Optional, Sequence, Tuple

from mc import pdfgen as G

IDENT = (1, 0, 0, 1, 0, 0)


def num(x):
    """exact number: ints stay ints (fast), everything else becomes a Fraction"""
    if isinstance(x, bool):
        raise TypeError(x)
    return x if isinstance(x, (int, Fr)) else Fr(x)


# ------------------------------------------------------------------ exact algebra
def mat(*v) -> Tuple[Fr, ...]:
    assert len(v) == 6
    return tuple(num(x) for x in v)


def mat_mul(m1, m0):
    """m1 x m0 (apply m1 first, then m0), ISO 32000-1 8.3.4."""
    a1, b1, c1, d1, e1, f1 = m1
    a0, b0, c0, d0, e0, f0 = m0
    return (
        a1 * a0 + b1 * c0,
        a1 * b0 + b1 * d0,
        c1 * a0 + d1 * c0,
        c1 * b0 + d1 * d0,
        e1 * a0 + f1 * c0 + e0,
        e1 * b0 + f1 * d0 + f0,
    )


def mat_pt(m, p):
    a, b, c, d, e, f = m
    x, y = p
    return (a * x + c * y + e, b * x + d * y + f)


def bound(pts):
    xs = [p[0] for p in pts]
    ys = [p[1] for p in pts]
    return (min(xs), min(ys), max(xs), max(ys))


def close(a, b, tol=1e-9) -> bool:
    """numeric equality: exact for dyadic data, 1e-9 relative otherwise"""
    if a is None or b is None:
        return a is b
    try:
        fa, fb = float(a), float(b)
    except (TypeError, ValueError):
        return False
    if fa == fb:
        return True
    return abs(fa - fb) <= tol * max(1.0, abs(fa), abs(fb))


def close_seq(a, b) -> bool:
    try:
        if a == b:  # fast path: exact (dyadic operands make the float arithmetic of the implementation exact)
            return True
    except Exception:  # noqa
        pass
    if isinstance(a, (tuple, list)) != isinstance(b, (tuple, list)):
        return False
    if isinstance(a, (tuple, list)):
        return len(a) == len(b) and all(close_seq(x, y) for x, y in zip(a, b))
    if isinstance(a, (int, float, Fr)) and not isinstance(a, bool) and isinstance(b, (int, float, Fr)) and not isinstance(b, bool):
        return close(a, b)
    return a == b


def fl(x):
    """Fractions (nested) -> floats, for storing expectations in artefacts"""
    if isinstance(x, Fr):
        return float(x)
    if isinstance(x, (tuple, list)):
        return type(x)(fl(y) for y in x)
    if isinstance(x, dict):
        return {k: fl(v) for k, v in x.items()}
    return x


# ------------------------------------------------------------------ events -> bytes
# An event is a tuple (operator, operand, ...).  Operands: int/Fraction = number,
# bytes = literal string, str starting with "/" = name, tuple = array.
def _tok_operand(o) -> List[bytes]:
    if isinstance(o, bool):
        raise TypeError(o)
    if isinstance(o, (int, Fr)):
        return [G.fmt_num(o)]
    if isinstance(o, bytes):
        return [G.ser_str(o)]
    if isinstance(o, str):
        assert o.startswith("/")
        return [G.ser_name(o[1:].encode())]
    if isinstance(o, (tuple, list)):
        out = [b"["]
        for x in o:
            out += _tok_operand(x)
        out.append(b"]")
        return out
    raise TypeError(type(o))


def tokens(events: Iterable[Tuple]) -> List[bytes]:
    out: List[bytes] = []
    for ev in events:
        for o in ev[1:]:
            out += _tok_operand(o)
        out.append(ev[0].encode())
    return out


def program(events: Iterable[Tuple]) -> bytes:
    return b" ".join(tokens(events))


WS = b"\x00\t\n\x0c\r "


def ws_cuts(raw: bytes):
    """offsets at which ``raw`` can be divided "at white space": directly before and directly after every white-space
    byte, wherever that byte lies (between tokens, inside a literal or hex string, a comment, an array, a dictionary).
    Returns (cuts with the white-space byte kept on the left, all cuts)."""
    left, allc = [], set()
    for i, c in enumerate(raw):
        if c in WS:
            if 0 < i + 1 < len(raw):
                left.append(i + 1)
                allc.add(i + 1)
            if 0 < i < len(raw):
                allc.add(i)
    return left, sorted(allc)


def ev_from_json(e) -> Tuple:
    """events survive jenc/jdec as tuples already; lists (from older artefacts) are coerced"""
    def conv(o):
        if isinstance(o, list):
            return tuple(conv(x) for x in o)
        if isinstance(o, tuple):
            return tuple(conv(x) for x in o)
        return o

    return conv(e)


def is_num(o) -> bool:
    return isinstance(o, (int, Fr)) and not isinstance(o, bool)


def well_typed(ev: Tuple, sig: str) -> bool:
    """sig: one letter per operand -- n number, s string, N name, a array"""
    ops = ev[1:]
    if len(ops) != len(sig):
        return False
    for o, k in zip(ops, sig):
        if k == "n" and not is_num(o):
            return False
        if k == "s" and not isinstance(o, bytes):
            return False
        if k == "N" and not (isinstance(o, str) and o.startswith("/")):
            return False
        if k == "a" and not isinstance(o, tuple):
            return False
    return True


# ------------------------------------------------------------------ the real side
class Bench:
    """Runs content streams through the real interpreter on a fixed resource document."""

    def __init__(self, make_doc: Callable[[Sequence[bytes]], bytes]):
        from pdfminer.pdfdocument import PDFDocument
        from pdfminer.pdfinterp import PDFResourceManager
        from pdfminer.pdfpage import PDFPage
        from pdfminer.pdfparser import PDFParser

        self.make_doc = make_doc
        self._data = make_doc([b""])
        self._fp = io.BytesIO(self._data)
        self._doc = PDFDocument(PDFParser(self._fp))
        pages = list(PDFPage.create_pages(self._doc))
        assert len(pages) == 1
        self.page = pages[0]
        self.rsrcmgr = PDFResourceManager()
        self.runs = 0
        self.full_runs = 0

    def run(self, streams: Sequence[bytes]):
        """fast seam: real page object, contents replaced by in-memory streams"""
        from pdfminer.converter import PDFPageAggregator
        from pdfminer.pdfinterp import PDFPageInterpreter
        from pdfminer.pdftypes import PDFStream

        self.runs += 1
        dev = PDFPageAggregator(self.rsrcmgr, laparams=None)
        it = PDFPageInterpreter(self.rsrcmgr, dev)
        self.page.contents = [PDFStream({}, bytes(s)) for s in streams]
        exc = None
        try:
            it.process_page(self.page)
        except Exception as e:  # noqa: the oracle classifies it
            exc = e
        return (dev.result if exc is None else getattr(dev, "cur_item", None)), it, dev, exc

    def run_full(self, streams: Sequence[bytes]):
        """full seam: a complete PDF file with a real Contents array, fresh everything"""
        from pdfminer.converter import PDFPageAggregator
        from pdfminer.pdfdocument import PDFDocument
        from pdfminer.pdfinterp import PDFPageInterpreter, PDFResourceManager
        from pdfminer.pdfpage import PDFPage
        from pdfminer.pdfparser import PDFParser

        self.full_runs += 1
        data = self.make_doc(list(streams))
        doc = PDFDocument(PDFParser(io.BytesIO(data)))
        rs = PDFResourceManager()
        dev = PDFPageAggregator(rs, laparams=None)
        it = PDFPageInterpreter(rs, dev)
        exc = None
        try:
            for page in PDFPage.create_pages(doc):
                it.process_page(page)
        except Exception as e:  # noqa
            exc = e
        return (dev.result if exc is None else getattr(dev, "cur_item", None)), it, dev, exc, data


def run_pages(data: bytes):
    """A complete multi-page file processed the way a caller does it: one resource manager, one device and
    one interpreter for all pages.  Returns [(ltpage | None, exception | None), ...] in page order."""
    from pdfminer.converter import PDFPageAggregator
    from pdfminer.pdfdocument import PDFDocument
    from pdfminer.pdfinterp import PDFPageInterpreter, PDFResourceManager
    from pdfminer.pdfpage import PDFPage
    from pdfminer.pdfparser import PDFParser

    doc = PDFDocument(PDFParser(io.BytesIO(data)))
    rs = PDFResourceManager()
    dev = PDFPageAggregator(rs, laparams=None)
    it = PDFPageInterpreter(rs, dev)
    out = []
    for page in PDFPage.create_pages(doc):
        dev.result = None
        try:
            it.process_page(page)
            out.append((dev.result, None))
        except Exception as e:  # noqa: classified by the oracle
            out.append((None, e))
            dev._stack = []
    return out


def pages_doc(pages, doc=None) -> bytes:
    """pages: list of (content bytes, resources dict); objects referenced by the resources must already be in ``doc``"""
    d = doc or G.Doc()
    cat = d.reserve()
    root = d.reserve()
    kids = []
    for pg in pages:
        content, res = pg[0], pg[1]
        extra = pg[2] if len(pg) > 2 else {}  # e.g. {"MediaBox": [...], "Rotate": 90}
        c = d.add(G.Stream({}, bytes(content)))
        kids.append(d.add({"Type": G.N("Page"), "Parent": root, "MediaBox": [0, 0, 612, 792], "Resources": res, "Contents": c, **extra}))
    d.set(cat, {"Type": G.N("Catalog"), "Pages": root})
    d.set(root, {"Type": G.N("Pages"), "Kids": kids, "Count": len(kids)})
    return d.write(cat)


def exc_sig(e: BaseException) -> str:
    tb = traceback.extract_tb(e.__traceback__)
    where = tb[-1].name if tb else "?"
    # innermost frame inside pdfminer's interpreter/device gives the most stable site
    for fr in reversed(tb):
        if "pdfminer" in fr.filename:
            where = fr.name
            break
    return f"{type(e).__name__}@{where}"


def flatten(container, kinds) -> List[Any]:
    """items of the given classes in painting order, descending into figures"""
    from pdfminer.layout import LTFigure

    out = []
    if container is None:
        return out
    for o in container:
        if isinstance(o, kinds):
            out.append(o)
        elif isinstance(o, LTFigure):
            out += flatten(o, kinds)
    return out


# ------------------------------------------------------------------ canonical real state
def _cv(v):
    from pdfminer.psparser import PSKeyword, PSLiteral

    if isinstance(v, float):
        return repr(v + 0.0) if v != 0 else "0.0"
    if isinstance(v, bool) or v is None or isinstance(v, (int, str, bytes)):
        return repr(v)
    if isinstance(v, (list, tuple)):
        return "(" + ",".join(_cv(x) for x in v) + ")"
    if isinstance(v, (PSLiteral, PSKeyword)):
        return "/" + str(v.name)
    if isinstance(v, dict):
        return "{" + ",".join(f"{k}:{_cv(x)}" for k, x in sorted(v.items())) + "}"
    return type(v).__name__


def canon_textstate(ts) -> Tuple:
    return (
        getattr(ts.font, "fontname", None),
        _cv(ts.fontsize), _cv(ts.charspace), _cv(ts.wordspace), _cv(ts.scaling), _cv(ts.leading),
        _cv(ts.render), _cv(ts.rise), _cv(ts.matrix), _cv(ts.linematrix),
    )


def canon_gstate(gs) -> Tuple:
    return (
        _cv(gs.linewidth), _cv(gs.linecap), _cv(gs.linejoin), _cv(gs.miterlimit), _cv(gs.dash),
        _cv(gs.intent), _cv(gs.flatness), _cv(gs.scolor), _cv(gs.ncolor),
    )


def canon_interp(it, dev) -> Tuple:
    """Everything the interpreter keeps between operators (public attributes)."""
    def cs(x):
        return None if x is None else (x.name, x.ncomponents)

    stack = []
    for entry in it.gstack:
        row = []
        for x in entry:
            if hasattr(x, "linewidth"):
                row.append(canon_gstate(x))
            elif hasattr(x, "charspace"):
                row.append(canon_textstate(x))
            elif hasattr(x, "ncomponents"):
                row.append(cs(x))
            else:
                row.append(_cv(x))
        stack.append(tuple(row))
    return (
        _cv(it.ctm), _cv(dev.ctm), canon_textstate(it.textstate), canon_gstate(it.graphicstate),
        cs(it.scs), cs(it.ncs), tuple(stack), _cv(list(it.argstack)), _cv([tuple(p) for p in it.curpath]),
        len(getattr(dev, "_stack", ())),
    )


# ------------------------------------------------------------------ explicit-state search
class Node:
    __slots__ = ("hist", "model", "depth")

    def __init__(self, hist, model, depth):
        self.hist, self.model, self.depth = hist, model, depth


def explore(
    root_hist: Tuple,
    root_model: Any,
    enabled: Callable[[Any], Iterable[Tuple]],
    step: Callable[[Node, Tuple], Tuple[Any, Any]],
    max_depth: int,
    on_new_state: Optional[Callable[[Node, bool], None]] = None,
    start_depth: int = 0,
    collect_frontier: bool = False,
    root_key: Any = None,
):
    """BFS over event histories on the real code.

    ``step(node, ev) -> (model2, key)`` executes the real code on ``node.hist + (ev,)``,
    compares it with the model (recording violations itself) and returns the successor
    model state and the canonical dedup key (real state, model state).
    ``on_new_state(node, at_bound)`` is called once per distinct state.
    """
    seen = set() if root_key is None else {root_key}
    frontier = collections.deque([Node(tuple(root_hist), root_model, start_depth)])
    transitions = 0
    per_depth = collections.Counter()
    left = []
    while frontier:
        node = frontier.popleft()
        if node.depth >= max_depth:
            left.append(node)
            continue
        for ev in enabled(node.model):
            model2, key = step(node, ev)
            transitions += 1
            if key in seen:
                continue
            seen.add(key)
            n2 = Node(node.hist + (ev,), model2, node.depth + 1)
            per_depth[n2.depth] += 1
            if on_new_state is not None:
                on_new_state(n2, n2.depth >= max_depth)
            frontier.append(n2)
    return {
        "states": len(seen),
        "transitions": transitions,
        "per_depth": dict(per_depth),
        "frontier": left if collect_frontier else len(left),
    }
