"""Shared helpers for the layout properties (C08, C09): building real LTChar /
LTPage objects from plain glyph specs, and walking a result tree.

A glyph spec is a plain tuple ``(text, x0, y0, w, h, kind)`` with kind in
  "h"  horizontal font, axis-aligned scaling matrix (w,0,0,h,x0,y0)
  "v"  vertical-writing font (bbox derived from the displacement vector)
  "r"  horizontal font under a 90 degree rotation matrix (upright == False)
The expected bounding box is always (x0, y0, x0+w, y0+h); ``make_char``
asserts that the real LTChar agrees (a disagreement is a harness error, the
glyph-box computation itself is property C05's subject, not C08/C09's).
"""
from __future__ import annotations

from typing import Any, List, Sequence, Tuple

from pdfminer.layout import LTChar, LTFigure, LTPage, LTRect


class StubFont:
    fontname = "Stub"

    def __init__(self, vertical: bool = False) -> None:
        self.vertical = vertical

    def is_vertical(self) -> bool:
        return self.vertical

    def get_descent(self) -> float:
        return 0


_HF = StubFont(False)
_VF = StubFont(True)


def make_char(spec: Sequence[Any]) -> LTChar:
    text, x0, y0, w, h, kind = spec
    if kind == "h":
        c = LTChar((w, 0, 0, h, x0, y0), _HF, 1, 1, 0, text, 1, 0, None, None)
    elif kind == "v":
        # vertical font: local box (-fs/2, adv, fs/2, 0) with fs = 1, adv = 1, then scaled by (w, h)
        c = LTChar((w, 0, 0, h, x0 + w / 2, y0), _VF, 1, 1, 0, text, 1, (None, 1000), None, None)
    elif kind == "r":
        # (x, y) -> (-h*y + x0 + w, w*x + y0): local unit box rotated by 90 degrees
        c = LTChar((0, w, -h, 0, x0 + w, y0), _HF, 1, 1, 0, text, 1, 0, None, None)
    else:  # pragma: no cover
        raise ValueError(kind)
    exp = (x0, y0, x0 + w, y0 + h)
    if tuple(c.bbox) != exp:
        raise RuntimeError(f"harness: LTChar bbox {c.bbox} != expected {exp} for {spec!r}")
    return c


def make_page(bbox: Sequence[float], specs: Sequence[Sequence[Any]]) -> Tuple[LTPage, List[LTChar]]:
    page = LTPage(1, tuple(bbox))
    chars = [make_char(s) for s in specs]
    for c in chars:
        page.add(c)
    return page, chars


def make_rect(bbox: Sequence[float]) -> LTRect:
    return LTRect(1, tuple(bbox))


def make_figure(name: str, bbox: Sequence[float]) -> LTFigure:
    x0, y0, x1, y1 = bbox
    return LTFigure(name, (x0, y0, x1 - x0, y1 - y0), (1, 0, 0, 1, 0, 0))


class HeapBudgetExceeded(Exception):
    pass


class CountingHeapq:
    """Drop-in for the ``heapq`` name inside pdfminer.layout: counts the iterations of the only
    unbounded loop of the analysis (``while len(dists) > 0`` in group_textboxes), each of which pops once."""

    def __init__(self) -> None:
        import heapq

        self._h = heapq
        self.pops = 0
        self.budget = 1 << 60

    def heapify(self, x):
        return self._h.heapify(x)

    def heappush(self, h, x):
        return self._h.heappush(h, x)

    def heappop(self, h):
        self.pops += 1
        if self.pops > self.budget:
            raise HeapBudgetExceeded(f"more than {self.budget} iterations of the box-merging loop")
        return self._h.heappop(h)


def install_counting_heapq() -> CountingHeapq:
    import pdfminer.layout as L

    cur = getattr(L, "heapq")
    if isinstance(cur, CountingHeapq):
        return cur
    c = CountingHeapq()
    L.heapq = c
    return c


class StableId:
    """Harness-side replacement for the name ``id`` inside pdfminer.layout.

    group_textboxes breaks ties between equal box distances by ``id(obj)``, i.e. by memory address, which differs
    from run to run (that dependence is property C12's subject).  To keep C08/C09 runs reproducible the harness
    numbers objects in the order in which the analysis first asks for their id; ``reset()`` before each analysis."""

    def __init__(self) -> None:
        import builtins

        self._id = builtins.id
        self.map = {}
        self.keep = []

    def __call__(self, o):
        k = self._id(o)
        v = self.map.get(k)
        if v is None:
            v = self.map[k] = len(self.map)
            self.keep.append(o)  # keep alive: a real id must not be reused while the table is in use
        return v

    def reset(self) -> None:
        self.map.clear()
        self.keep.clear()


def install_stable_id() -> StableId:
    import pdfminer.layout as L

    cur = L.__dict__.get("id")
    if isinstance(cur, StableId):
        return cur
    s = StableId()
    L.id = s
    return s
