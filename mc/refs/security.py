"""Reference standard security handler -- the *writing* side, plus a reader used only to validate it.

Written from ISO 32000-1:2008 7.6 (Algorithms 1-7), Adobe Supplement ExtensionLevel 3 (revision 5) and
ISO 32000-2 7.6.4 (Algorithms 1.A, 2.A, 2.B, 8, 9, 10).  Independent of pdfminer: own RC4, hashlib, and
AES from ``cryptography``.  ``selftest()`` ties it to third-party output (the encrypted sample files of the
repository, produced by other software) and to ``cryptography``'s ARC4 for the key sizes that one accepts.
"""
from __future__ import annotations

import hashlib
import struct
import zlib
from typing import Any, Dict, List, Optional, Sequence, Tuple

from cryptography.hazmat.primitives.ciphers import Cipher, algorithms, modes

from mc.pdfgen import HexStr, Name, Raw, Ref, Stream, ser, xref_stream_obj, xref_table

N = Name

# ISO 32000-1 7.6.3.3, Algorithm 2 step a
PAD = bytes.fromhex("28BF4E5E4E758A4164004E56FFFA01082E2E00B6D0683E802F0CA9FE6453697A")


# ----------------------------------------------------------------- primitives
def rc4(key: bytes, data: bytes) -> bytes:
    """RC4 as published (key schedule + PRGA)."""
    S = bytearray(range(256))
    j = 0
    kl = len(key)
    for i in range(256):
        j = (j + S[i] + key[i % kl]) & 255
        S[i], S[j] = S[j], S[i]
    out = bytearray(len(data))
    i = j = 0
    for n, c in enumerate(data):
        i = (i + 1) & 255
        j = (j + S[i]) & 255
        S[i], S[j] = S[j], S[i]
        out[n] = c ^ S[(S[i] + S[j]) & 255]
    return bytes(out)


def aes_cbc_enc_nopad(key: bytes, iv: bytes, data: bytes) -> bytes:
    e = Cipher(algorithms.AES(key), modes.CBC(iv)).encryptor()
    return e.update(data) + e.finalize()


def aes_cbc_dec_nopad(key: bytes, iv: bytes, data: bytes) -> bytes:
    d = Cipher(algorithms.AES(key), modes.CBC(iv)).decryptor()
    return d.update(data) + d.finalize()


def aes_ecb_enc(key: bytes, data: bytes) -> bytes:
    e = Cipher(algorithms.AES(key), modes.ECB()).encryptor()
    return e.update(data) + e.finalize()


def pkcs7(data: bytes) -> bytes:
    n = 16 - len(data) % 16
    return data + bytes((n,)) * n


def unpkcs7(data: bytes) -> bytes:
    if not data or len(data) % 16:
        raise ValueError("not a padded block sequence")
    n = data[-1]
    if not 1 <= n <= 16 or data[-n:] != bytes((n,)) * n:
        raise ValueError("bad padding")
    return data[:-n]


def det_bytes(n: int, *parts: Any) -> bytes:
    """Deterministic stand-in for the 'random' salts, IVs and file keys of the writer."""
    out = b""
    c = 0
    while len(out) < n:
        out += hashlib.sha256(repr((c,) + parts).encode()).digest()
        c += 1
    return out[:n]


# ---------------------------------------------------------- password handling
# PDFDocEncoding code points that differ from Latin-1 (ISO 32000-1 Annex D.2), the ones the pools use
_PDFDOC_EXTRA = {"•": 0x80, "†": 0x81, "‡": 0x82, "…": 0x83, "—": 0x84, "–": 0x85,
                 "ƒ": 0x86, "⁄": 0x87, "‹": 0x88, "›": 0x89, "−": 0x8A, "‰": 0x8B,
                 "„": 0x8C, "“": 0x8D, "”": 0x8E, "‘": 0x8F, "’": 0x90, "‚": 0x91,
                 "™": 0x92, "ﬁ": 0x93, "ﬂ": 0x94, "Ł": 0x95, "Œ": 0x96, "Š": 0x97,
                 "Ÿ": 0x98, "Ž": 0x99, "ı": 0x9A, "ł": 0x9B, "œ": 0x9C, "š": 0x9D,
                 "ž": 0x9E, "€": 0xA0}


# 0x18..0x1F: BREVE, CARON, MODIFIER CIRCUMFLEX, DOT ABOVE, DOUBLE ACUTE, OGONEK, RING ABOVE, SMALL TILDE
_PDFDOC_ACCENTS = "\u02d8\u02c7\u02c6\u02d9\u02dd\u02db\u02da\u02dc"


def pdfdoc_encode(s: str) -> Optional[bytes]:
    """PDFDocEncoding of a password, or None if it has no such encoding."""
    out = bytearray()
    for ch in s:
        o = ord(ch)
        if ch in _PDFDOC_EXTRA:
            out.append(_PDFDOC_EXTRA[ch])
        elif ch in _PDFDOC_ACCENTS:
            out.append(0x18 + _PDFDOC_ACCENTS.index(ch))
        elif o <= 0x17 and o != 0x16:
            # control codes stand for themselves (Annex D.2); 0x16 is left out: Adobe's table lists U+0017 at both
            # 0x16 and 0x17, so U+0016 has no agreed encoding
            out.append(o)
        elif 0x20 <= o <= 0x7E or 0xA1 <= o <= 0xFF and o != 0xAD:
            out.append(o)
        else:
            return None
    return bytes(out)


# RFC 4013 section 3 examples (input -> output; None = prohibited) -- the only non-identity SASLprep cases used
SASLPREP_TABLE: Dict[str, Optional[str]] = {
    "I\u00adX": "IX",  # soft hyphen mapped to nothing (B.1)
    "\u00aa": "a",  # NFKC
    "\u2168": "IX",  # NFKC
    "\u0007": None,  # prohibited: ASCII control (C.2.1)
    "\u0627\u0031": None,  # bidi check
    "\u00ad": "",  # maps to nothing at all (B.1) -- not an RFC example, follows from B.1
    "x\u00a0y": "x y",  # non-ASCII space -> SPACE (C.1.2)
    # white space for str.isspace() but NOT in C.1.2: prohibited control characters (C.2.1: 0000-001F; C.2.2: 0085, 2028)
    "x\ty": None, "x\x1fy": None, "x\u0085y": None, "x\u2028y": None,
}


def saslprep_ref(s: str) -> Optional[str]:
    """SASLprep for the strings of the pools: table-driven, identity on NFKC-stable letters."""
    if s in SASLPREP_TABLE:
        return SASLPREP_TABLE[s]
    import unicodedata

    # pool strings outside the table are chosen so that SASLprep is the identity; assert the obvious part
    assert unicodedata.normalize("NFKC", s) == s and all(ord(c) >= 0x20 and c != "\u00ad" for c in s), s
    return s


def prepare_password(pw: str, R: int) -> Optional[bytes]:
    """The byte string the algorithms operate on, or None when ``pw`` cannot be a password at this revision."""
    if R <= 4:
        return pdfdoc_encode(pw)
    if R == 5:
        return pw.encode("utf-8")[:127]
    p = saslprep_ref(pw)
    if p is None:
        return None
    return p.encode("utf-8")[:127]


def pw_identity(pw: str, R: int) -> Optional[bytes]:
    """What distinguishes two passwords for the handler (R<=4: first 32 bytes after padding)."""
    b = prepare_password(pw, R)
    if b is None:
        return None
    if R <= 4:
        return (b + PAD)[:32]
    return b


# ------------------------------------------------------------------- R2..R4
def _md5(b: bytes) -> bytes:
    return hashlib.md5(b).digest()


def alg2_key(pw: bytes, O: bytes, P: int, id0: bytes, R: int, n: int, encrypt_metadata: bool) -> bytes:
    h = hashlib.md5((pw + PAD)[:32])
    h.update(O)
    h.update(struct.pack("<I", P & 0xFFFFFFFF))
    h.update(id0)
    if R >= 4 and not encrypt_metadata:
        h.update(b"\xff\xff\xff\xff")
    k = h.digest()
    if R >= 3:
        for _ in range(50):
            k = _md5(k[:n])
    return k[:n]


def _owner_rc4_key(owner_pw: bytes, R: int, n: int) -> bytes:
    h = _md5((owner_pw + PAD)[:32])
    if R >= 3:
        for _ in range(50):
            h = _md5(h)
    return h[:n]


def alg3_O(owner_pw: bytes, user_pw: bytes, R: int, n: int) -> bytes:
    k = _owner_rc4_key(owner_pw, R, n)
    o = rc4(k, (user_pw + PAD)[:32])
    if R >= 3:
        for i in range(1, 20):
            o = rc4(bytes(b ^ i for b in k), o)
    return o


def alg4_U(key: bytes) -> bytes:
    return rc4(key, PAD)


def alg5_U16(key: bytes, id0: bytes) -> bytes:
    u = rc4(key, _md5(PAD + id0))
    for i in range(1, 20):
        u = rc4(bytes(b ^ i for b in key), u)
    return u


def alg1_objkey(filekey: bytes, num: int, gen: int, aes: bool) -> bytes:
    m = filekey + struct.pack("<I", num)[:3] + struct.pack("<I", gen)[:2]
    if aes:
        m += b"sAlT"
    return _md5(m)[: min(len(filekey) + 5, 16)]


# -------------------------------------------------------------------- R5, R6
def hash_r5(pw: bytes, salt: bytes, udata: bytes = b"") -> bytes:
    return hashlib.sha256(pw + salt + udata).digest()


def hash_r6(pw: bytes, salt: bytes, udata: bytes = b"") -> bytes:
    """ISO 32000-2 Algorithm 2.B."""
    K = hashlib.sha256(pw + salt + udata).digest()
    i = 0
    while True:
        K1 = (pw + K + udata) * 64
        E = aes_cbc_enc_nopad(K[:16], K[16:32], K1)
        sel = int.from_bytes(E[:16], "big") % 3
        K = (hashlib.sha256, hashlib.sha384, hashlib.sha512)[sel](E).digest()
        i += 1
        if i >= 64 and E[-1] <= i - 32:
            break
    return K[:32]


# ------------------------------------------------------------------- handler
class Cfg:
    """One handler configuration: V, R, key bits, crypt filter method ('RC4','V2','AESV2','Identity','AESV3')."""

    def __init__(self, V: int, R: int, bits: int, cfm: str, explicit_length: bool = True):
        self.V, self.R, self.bits, self.cfm, self.explicit_length = V, R, bits, cfm, explicit_length

    @property
    def name(self) -> str:
        return f"V{self.V}R{self.R}-{self.bits}-{self.cfm}"

    def astuple(self):
        return (self.V, self.R, self.bits, self.cfm, self.explicit_length)


class Handler:
    def __init__(self, cfg: Cfg, user: str, owner: str, P: int, id0: bytes, encrypt_metadata: bool = True,
                 p_unsigned: bool = False, salt: Any = 0, empty_style: str = "full"):
        self.cfg = cfg
        # how zero-length strings/streams are written under AES: "full" = IV + one padding block (conforming),
        # "bare" = nothing at all, "iv-only" = the 16-byte IV without a padding block (both seen from real producers)
        self.empty_style = empty_style
        self.P = P  # signed 32-bit value
        self.id0 = id0
        self.em = encrypt_metadata
        self.p_unsigned = p_unsigned
        R = cfg.R
        self.n = cfg.bits // 8 if R >= 3 else 5
        up = prepare_password(user, R)
        op = prepare_password(owner, R)
        if up is None or op is None:
            raise ValueError("password not representable at this revision")
        self.aes = cfg.cfm in ("AESV2", "AESV3")
        self.identity = cfg.cfm == "Identity"
        self._ivc = 0
        self.salt = salt
        if R <= 4:
            if not op:
                op = up  # Algorithm 3 step a: no owner password -> use the user password
            self.O = alg3_O(op, up, R, self.n)
            self.key = alg2_key(up, self.O, P, id0, R, self.n, self.em)
            if R == 2:
                self.U = alg4_U(self.key)
            else:
                # "arbitrary padding" (Algorithm 5 step f): deliberately not zero and not a repeat
                self.U = alg5_U16(self.key, id0) + det_bytes(16, "upad", salt)
            self.OE = self.UE = self.Perms = None
        else:
            H = hash_r5 if R == 5 else hash_r6
            self.key = det_bytes(32, "filekey", salt, cfg.astuple())
            uvs, uks = det_bytes(8, "uvs", salt), det_bytes(8, "uks", salt)
            ovs, oks = det_bytes(8, "ovs", salt), det_bytes(8, "oks", salt)
            self.U = H(up, uvs) + uvs + uks
            self.UE = aes_cbc_enc_nopad(H(up, uks), b"\0" * 16, self.key)
            self.O = H(op, ovs, self.U) + ovs + oks
            self.OE = aes_cbc_enc_nopad(H(op, oks, self.U), b"\0" * 16, self.key)
            perms = struct.pack("<I", P & 0xFFFFFFFF) + b"\xff\xff\xff\xff" + (b"T" if self.em else b"F") + b"adb" + det_bytes(4, "perms", salt)
            self.Perms = aes_ecb_enc(self.key, perms)

    # ---- /Encrypt dictionary
    def encrypt_dict(self) -> Dict[str, Any]:
        c = self.cfg
        d: Dict[str, Any] = {"Filter": N("Standard"), "V": c.V, "R": c.R}
        if c.V in (2, 4, 5) and c.explicit_length:
            # True: the key length; an integer: a stale top-level /Length (V4 takes the key length from its crypt filter,
            # ISO 32000-1 table 20: /Length applies "only if V is 2 or 3")
            d["Length"] = c.bits if c.explicit_length is True else int(c.explicit_length)
        d["O"] = HexStr(self.O)
        d["U"] = HexStr(self.U)
        d["P"] = (self.P & 0xFFFFFFFF) if self.p_unsigned else self.P
        if c.V >= 4:
            if c.cfm == "Identity":
                d["CF"] = {}
                d["StmF"] = N("Identity")
                d["StrF"] = N("Identity")
            else:
                d["CF"] = {"StdCF": {"Type": N("CryptFilter"), "AuthEvent": N("DocOpen"), "CFM": N(c.cfm), "Length": c.bits // 8}}
                d["StmF"] = N("StdCF")
                d["StrF"] = N("StdCF")
            if not self.em:
                d["EncryptMetadata"] = False
        if c.R >= 5:
            d["OE"] = HexStr(self.OE)
            d["UE"] = HexStr(self.UE)
            d["Perms"] = HexStr(self.Perms)
        return d

    # ---- data
    def _iv(self, num: int, gen: int) -> bytes:
        self._ivc += 1
        return det_bytes(16, "iv", num, gen, self._ivc, self.salt)

    def encrypt(self, num: int, gen: int, data: bytes) -> bytes:
        if self.identity:
            return data
        if self.aes and not data and self.empty_style != "full":
            return b"" if self.empty_style == "bare" else self._iv(num, gen)
        if self.cfg.cfm == "AESV3":
            iv = self._iv(num, gen)
            return iv + aes_cbc_enc_nopad(self.key, iv, pkcs7(data))
        k = alg1_objkey(self.key, num, gen, self.aes)
        if self.aes:
            iv = self._iv(num, gen)
            return iv + aes_cbc_enc_nopad(k, iv, pkcs7(data))
        return rc4(k, data)

    def decrypt(self, num: int, gen: int, data: bytes) -> bytes:
        if self.identity:
            return data
        if self.cfg.cfm == "AESV3":
            return unpkcs7(aes_cbc_dec_nopad(self.key, data[:16], data[16:]))
        k = alg1_objkey(self.key, num, gen, self.aes)
        if self.aes:
            return unpkcs7(aes_cbc_dec_nopad(k, data[:16], data[16:]))
        return rc4(k, data)


# ------------------------------------------ reader (only for validating the above)
def authenticate(enc: Dict[str, Any], id0: bytes, pw: str) -> Optional[Tuple[str, bytes]]:
    """Return ('user'|'owner', file key) if ``pw`` opens a document with these /Encrypt values (plain Python
    values: ints, bytes, str names), else None.  Algorithms 6, 7 (R2-4) and 2.A (R5-6)."""
    R = enc["R"]
    O, U, P = enc["O"], enc["U"], enc["P"]
    pb = prepare_password(pw, R)
    if pb is None:
        return None
    if R <= 4:
        n = 5 if R == 2 else enc.get("Length", 40) // 8
        em = enc.get("EncryptMetadata", True)

        def user_ok(upw: bytes) -> Optional[bytes]:
            key = alg2_key(upw, O, P, id0, R, n, em)
            if R == 2:
                return key if alg4_U(key) == U else None
            return key if alg5_U16(key, id0) == U[:16] else None

        k = user_ok(pb)
        if k is not None:
            return ("user", k)
        rk = _owner_rc4_key(pb, R, n)
        if R == 2:
            upw = rc4(rk, O)
        else:
            upw = O
            for i in range(19, -1, -1):
                upw = rc4(bytes(b ^ i for b in rk), upw)
        k = user_ok(upw)
        return ("owner", k) if k is not None else None
    H = hash_r5 if R == 5 else hash_r6
    if H(pb, O[32:40], U[:48]) == O[:32]:
        return ("owner", aes_cbc_dec_nopad(H(pb, O[40:48], U[:48]), b"\0" * 16, enc["OE"]))
    if H(pb, U[32:40]) == U[:32]:
        return ("user", aes_cbc_dec_nopad(H(pb, U[40:48]), b"\0" * 16, enc["UE"]))
    return None


def decrypt_with(filekey: bytes, cfm: str, num: int, gen: int, data: bytes) -> bytes:
    if cfm == "Identity":
        return data
    if cfm == "AESV3":
        return unpkcs7(aes_cbc_dec_nopad(filekey, data[:16], data[16:]))
    aes = cfm == "AESV2"
    k = alg1_objkey(filekey, num, gen, aes)
    if aes:
        return unpkcs7(aes_cbc_dec_nopad(k, data[:16], data[16:]))
    return rc4(k, data)


# ------------------------------------------------------ encrypting PDF writer
class Plain:
    """A plaintext document: {num: (gen, obj)} with pdfgen value types, root/info refs, optional /ID."""

    def __init__(self, objs: Dict[int, Tuple[int, Any]], root: Ref, info: Optional[Ref], ident: Optional[Tuple[bytes, bytes]]):
        self.objs, self.root, self.info, self.ident = objs, root, info, ident


def _is_type(d: Dict[str, Any], name: str) -> bool:
    t = d.get("Type")
    return isinstance(t, Name) and t.v == name.encode()


def enc_value(o: Any, num: int, gen: int, h: Optional[Handler], hexstr: bool, log: Optional[List] = None) -> Any:
    """Copy of ``o`` with every string (and stream payload) encrypted for object (num, gen)."""
    if h is None:
        return o
    if isinstance(o, Raw):
        return o
    if isinstance(o, (bytes, bytearray)):
        c = h.encrypt(num, gen, bytes(o))
        if log is not None:
            log.append((num, bytes(o), c))
        return HexStr(c) if hexstr else bytes(c)
    if isinstance(o, (list, tuple)):
        return [enc_value(x, num, gen, h, hexstr, log) for x in o]
    if isinstance(o, dict):
        return {k: enc_value(v, num, gen, h, hexstr, log) for k, v in o.items()}
    if isinstance(o, Stream):
        d = enc_value(o.d, num, gen, h, hexstr, log)
        if _is_type(o.d, "XRef") or (not h.em and _is_type(o.d, "Metadata") and h.cfg.V >= 4):
            data = o.data
        else:
            data = h.encrypt(num, gen, o.data)
        return Stream(d, data)
    return o


def write_pdf(doc: Plain, h: Optional[Handler], layout: str = "table", objstm: Sequence[int] = (), encrypt_indirect: bool = False,
              hexstr: bool = False, header: bytes = b"%PDF-1.7\n%\xe2\xe3\xcf\xd3\n", xref_flate: bool = False,
              W: Tuple[int, int, int] = (1, 4, 2)) -> Tuple[bytes, Dict[str, Any]]:
    """Serialise ``doc`` (encrypted with ``h`` if given).  layout 'table': classic xref + trailer;
    'xrefstm': cross-reference stream, objects listed in ``objstm`` packed (unencrypted inside) into one
    object stream which is encrypted as a whole.  Returns (bytes, info) where info has the numbers of the
    synthetic objects."""
    objs: Dict[int, Tuple[int, Any]] = {}
    info: Dict[str, Any] = {}
    packed = sorted(objstm) if layout == "xrefstm" else []
    nextnum = max(doc.objs) + 1
    entries: Dict[int, Tuple[int, int, int]] = {}
    cipherlog: List = []
    for num, (gen, obj) in doc.objs.items():
        if num in packed:
            continue
        objs[num] = (gen, enc_value(obj, num, gen, h, hexstr, cipherlog))
    if packed:
        osnum = nextnum
        nextnum += 1
        parts, head, off = [], [], 0
        for num in packed:
            assert doc.objs[num][0] == 0 and not isinstance(doc.objs[num][1], Stream)
            b = ser(doc.objs[num][1])
            head.append(b"%d %d" % (num, off))
            parts.append(b)
            off += len(b) + 1
        hd = b" ".join(head) + b"\n"
        payload = hd + b"\n".join(parts) + b"\n"
        st = Stream({"Type": N("ObjStm"), "N": len(packed), "First": len(hd)}, payload)
        objs[osnum] = (0, enc_value(st, osnum, 0, h, hexstr))
        for i, num in enumerate(packed):
            entries[num] = (2, osnum, i)
        info["objstm"] = osnum
    tr: Dict[str, Any] = {"Root": doc.root}
    if doc.info is not None:
        tr["Info"] = doc.info
    if doc.ident is not None:
        tr["ID"] = [HexStr(doc.ident[0]), HexStr(doc.ident[1])]
    if h is not None:
        ed = h.encrypt_dict()
        if encrypt_indirect:
            objs[nextnum] = (0, ed)  # strings of the encryption dictionary are never encrypted
            tr["Encrypt"] = Ref(nextnum, 0)
            info["encrypt"] = nextnum
            nextnum += 1
        else:
            tr["Encrypt"] = ed
    out = bytearray(header)
    offs: Dict[int, Tuple[int, int]] = {}
    for num in sorted(objs):
        gen, obj = objs[num]
        offs[num] = (len(out), gen)
        out += b"%d %d obj\n" % (num, gen) + ser(obj) + b"\nendobj\n"
    info["cipherlog"] = cipherlog
    if layout == "table":
        size = max(objs) + 1
        x = xref_table(offs)
        body = bytes(out)
        return body + x + b"trailer\n" + ser({"Size": size, **tr}) + b"\nstartxref\n%d\n%%%%EOF\n" % len(body), info
    xnum = nextnum
    for num, (o, g) in offs.items():
        entries[num] = (1, o, g)
    entries[xnum] = (1, len(out), 0)
    entries[0] = (0, 0, 65535)
    info["xref"] = xnum
    xs = xref_stream_obj(entries, {"Type": N("XRef"), "Size": xnum + 1, **tr}, W=W, flate=xref_flate)
    # the cross-reference stream is never encrypted (7.5.8.2): this is what any reader must get back from it
    info["xref_data"] = zlib.decompress(xs.data) if xref_flate else xs.data
    body = bytes(out)
    return body + b"%d 0 obj\n" % xnum + ser(xs) + b"\nendobj\nstartxref\n%d\n%%%%EOF\n" % len(body), info


# ------------------------------------------------------------------ self-test
_SELFTEST: Optional[List[str]] = None


def selftest(repo: str) -> List[str]:
    """Validate the reference against material it did not produce.  Returns a list of problems (empty = ok)."""
    global _SELFTEST
    if _SELFTEST is not None:
        return _SELFTEST
    import io
    import os
    import re

    problems: List[str] = []
    # (1) own RC4 == cryptography's ARC4 where that accepts the key size
    try:
        from cryptography.hazmat.decrepit.ciphers.algorithms import ARC4
    except Exception:  # pragma: no cover
        from cryptography.hazmat.primitives.ciphers.algorithms import ARC4  # type: ignore
    for kl in (5, 7, 8, 10, 16):
        key = det_bytes(kl, "rc4key", kl)
        data = det_bytes(77, "rc4data", kl)
        ref = Cipher(ARC4(key), mode=None).encryptor().update(data)
        if rc4(key, data) != ref:
            problems.append(f"rc4 differs from cryptography ARC4 at key length {kl}")
    # RFC 6229 test vector, key 0x0102030405, first 16 bytes of keystream
    if rc4(bytes([1, 2, 3, 4, 5]), b"\0" * 16).hex() != "b2396305f03dc027ccc3524a0a1118a8":
        problems.append("rc4 RFC 6229 vector")
    # (2) the repository's third-party encrypted samples
    from pdfminer.psparser import PSLiteral  # syntax layer only (reads the /Encrypt dictionary)
    from pdfminer.pdfparser import PDFStreamParser

    def plain(v):
        if isinstance(v, PSLiteral):
            return v.name
        if isinstance(v, dict):
            return {k: plain(x) for k, x in v.items()}
        if isinstance(v, list):
            return [plain(x) for x in v]
        return v

    def parse_at(data: bytes, pos: int):
        p = PDFStreamParser(data[pos:pos + 4096])
        return plain(p.nextobject()[1])

    sdir = os.path.join(repo, "samples", "encryption")
    base = open(os.path.join(sdir, "base.pdf"), "rb").read()
    m = re.search(rb"/Producer\s*\(", base)
    base_producer = parse_at(base, m.end() - 1) if m else None
    table = [
        ("rc4-40.pdf", "baz", "foo"), ("rc4-128.pdf", "baz", "foo"), ("aes-128.pdf", "baz", "foo"),
        ("aes-128-m.pdf", "baz", "foo"), ("aes-256.pdf", "baz", "foo"), ("aes-256-m.pdf", "baz", "foo"),
        ("aes-256-r6.pdf", "usersecret", "ownersecret"), ("encrypted_doc_no_id.pdf", "", None),
    ]
    for fn, upw, opw in table:
        data = open(os.path.join(sdir, fn), "rb").read()
        m = re.search(rb"/Encrypt\s*(\d+)\s+0\s+R", data)
        if m:
            m2 = re.search(rb"(?:^|[\r\n])" + m.group(1) + rb" 0 obj\s*", data)
            enc = parse_at(data, m2.end())
        else:
            m = re.search(rb"/Encrypt\s*<<", data)
            enc = parse_at(data, m.end() - 2)
        ms = list(re.finditer(rb"/ID\s*\[", data))
        id0 = parse_at(data, ms[-1].end() - 1)[0] if ms else b""
        if enc["P"] > 0x7FFFFFFF:
            enc["P"] -= 1 << 32
        if enc["V"] >= 4:
            enc["Length"] = 128 if enc["V"] == 4 else 256
            cfm = enc["CF"][enc["StmF"]]["CFM"] if enc["StmF"] != "Identity" else "Identity"
        else:
            cfm = "RC4"
        ru = authenticate(enc, id0, upw)
        if ru is None or ru[0] != "user":
            problems.append(f"{fn}: user password {upw!r} not accepted by the reference")
            continue
        if opw is not None:
            ro = authenticate(enc, id0, opw)
            if ro is None or ro[0] != "owner" or ro[1] != ru[1]:
                problems.append(f"{fn}: owner password does not lead to the same file key")
        for bad in ("fo", "foo ", "bar", "usersecre"):
            if bad != upw and authenticate(enc, id0, bad) is not None:
                problems.append(f"{fn}: wrong password {bad!r} accepted by the reference")
        # decrypt the Info /Producer string and compare with base.pdf (same generator run, unencrypted)
        m = re.search(rb"[\r\n](\d+) 0 obj\s*<<[^>]*?/Producer\s*(?=[(<])", data)
        if m and base_producer is not None and fn.startswith(("rc4", "aes-1", "aes-256.", "aes-256-m")):
            num = int(m.group(1))
            c = parse_at(data, m.end())
            try:
                got = decrypt_with(ru[1], cfm, num, 0, c)
            except ValueError as e:
                got = repr(e).encode()
            if got != base_producer:
                problems.append(f"{fn}: decrypted /Producer {got!r} != base.pdf {base_producer!r}")
        elif fn == "aes-256-r6.pdf":
            m = re.search(rb"[\r\n]5 0 obj.*?stream\r?\n", data, re.S)
            try:
                got = decrypt_with(ru[1], cfm, 5, 0, data[m.end():m.end() + 80])
            except ValueError as e:
                got = repr(e).encode()
            if b"Tj" not in got and b"TJ" not in got:
                problems.append(f"{fn}: decrypted content stream has no text operator: {got[:40]!r}")
    # (3) writer/reader round trip of this module on every handler family
    for cfg in (Cfg(1, 2, 40, "RC4"), Cfg(2, 3, 56, "RC4"), Cfg(4, 4, 128, "AESV2"), Cfg(5, 5, 256, "AESV3"), Cfg(5, 6, 256, "AESV3")):
        h = Handler(cfg, "uä", "o", -44, b"0123456789abcdef", True)
        enc = {"R": cfg.R, "O": h.O, "U": h.U, "P": h.P, "Length": cfg.bits, "OE": h.OE, "UE": h.UE}
        for pw, role in (("uä", "user"), ("o", "owner")):
            r = authenticate(enc, h.id0, pw)
            if r is None or r != (role, h.key):
                problems.append(f"round trip {cfg.name} {role}")
        if h.decrypt(7, 1, h.encrypt(7, 1, b"abc")) != b"abc":
            problems.append(f"round trip data {cfg.name}")
    # (4) PDFDocEncoding extras against the library's (non-anchored) decoding table
    try:
        from pdfminer.utils import PDFDocEncoding

        for ch, code in _PDFDOC_EXTRA.items():
            if PDFDocEncoding[code] != ch:
                problems.append(f"PDFDocEncoding 0x{code:02X}")
    except ImportError:
        pass
    _SELFTEST = problems
    return problems
