"""Reference pieces shared by C06 (simple fonts) and C07 (composite fonts).

* ``agl_text``   -- the Adobe Glyph List algorithm (AGL specification, section 2), written from the
                    specification text; shares only the *data* (glyph list) with pdfminer.
* ``latin_names``-- code -> glyph name for the four Latin encodings, read from the rows of
                    ``latin_enc.ENCODING`` (data), not from ``EncodingDB``.
* ``pdfdoc_annex_d`` -- frozen PDFDocEncoding table (ISO 32000-1 Annex D.2), written out by hand.
* ``glyphs``     -- run a generated document through the public pipeline and return the raw LTChar facts.
"""
from __future__ import annotations

import io
from typing import Dict, List, Optional, Tuple

UPPER_HEX = set("0123456789ABCDEF")


# --------------------------------------------------------------------------- AGL
def _glyphlist() -> Dict[str, str]:
    from pdfminer.glyphlist import glyphname2unicode

    return glyphname2unicode


def agl_component(comp: str, table: Optional[Dict[str, str]] = None) -> str:
    """AGL spec 2, step 3 for one component; '' = no mapping."""
    if table is None:
        table = _glyphlist()
    hit = table.get(comp)
    if hit is not None:
        return hit
    if len(comp) > 3 and comp[0] == "u" and comp[1] == "n" and comp[2] == "i":
        digits = comp[3:]
        if len(digits) % 4 == 0 and all(ch in UPPER_HEX for ch in digits):
            out = []
            for k in range(len(digits) // 4):
                v = int(digits[4 * k : 4 * k + 4], 16)
                if 0xD800 <= v <= 0xDFFF:
                    out = None
                    break
                out.append(chr(v))
            if out is not None:
                return "".join(out)
    if len(comp) > 1 and comp[0] == "u":
        digits = comp[1:]
        if 4 <= len(digits) <= 6 and all(ch in UPPER_HEX for ch in digits):
            v = int(digits, 16)
            if v <= 0xD7FF or 0xE000 <= v <= 0x10FFFF:
                return chr(v)
    return ""


def agl_text(name: str, table: Optional[Dict[str, str]] = None) -> str:
    """AGL spec 2: drop from the first '.', split on '_', map components, concatenate."""
    dot = name.find(".")
    if dot >= 0:
        name = name[:dot]
    return "".join(agl_component(c, table) for c in name.split("_"))


def has_lowercase_hex_form(name: str) -> bool:
    """True when some component looks like uni/u + hex digits with a lower-case a-f digit.

    The repository test-suite pins pdfminer's acceptance of those; the AGL specification demands upper case.
    Such names are not judged."""
    dot = name.find(".")
    if dot >= 0:
        name = name[:dot]
    table = _glyphlist()
    for comp in name.split("_"):
        if comp in table:
            continue
        for pre in ("uni", "u"):
            if comp.startswith(pre):
                d = comp[len(pre) :]
                if d and all(ch in "0123456789abcdefABCDEF" for ch in d) and any(ch in "abcdef" for ch in d):
                    return True
    return False


# ---------------------------------------------------------------- Latin encodings
ENC_COLUMN = {"StandardEncoding": 1, "MacRomanEncoding": 2, "WinAnsiEncoding": 3, "PDFDocEncoding": 4}


_PDFJS: Dict[str, object] = {}


def pdfjs_tables() -> Dict[str, object]:
    """data/c06_pdfjs_tables.json: the encoding arrays (Standard, MacRoman, WinAnsi, MacExpert, Symbol, ZapfDingbats)
    and the two glyph lists of pdf.js 2.14.305, extracted verbatim from a copy found offline on this machine -- an
    implementation-independent third-party source for tables pdfminer lacks or that had no cross-check."""
    if not _PDFJS:
        import json
        import os

        here = os.path.dirname(os.path.dirname(os.path.dirname(os.path.abspath(__file__))))
        with open(os.path.join(here, "data", "c06_pdfjs_tables.json")) as f:
            _PDFJS.update(json.load(f))
    return _PDFJS


PDFJS_ENC = {"MacExpertEncoding": "MacExpertEncoding", "Symbol": "SymbolSetEncoding", "ZapfDingbats": "ZapfDingbatsEncoding"}


def pdfjs_names(which: str) -> Dict[int, str]:
    arr = pdfjs_tables()["encodings"][PDFJS_ENC.get(which, which)]  # type: ignore[index]
    return {c: n for c, n in enumerate(arr) if n}


def zapf_table() -> Dict[str, str]:
    """AGL specification: for the font ZapfDingbats a component is looked up in the ZapfDingbats list first."""
    t = dict(_glyphlist())
    t.update({k: chr(v) for k, v in pdfjs_tables()["dingbats"].items()})  # type: ignore[union-attr]
    return t


def latin_names(encoding: str) -> Dict[int, str]:
    if encoding == "MacExpertEncoding":
        return pdfjs_names(encoding)
    from pdfminer.latin_enc import ENCODING

    col = ENC_COLUMN[encoding]
    out: Dict[int, str] = {}
    for row in ENCODING:
        code = row[col]
        if code is not None and code != 0:
            out[code] = row[0]
    return out


def pdfdoc_annex_d() -> Dict[int, int]:
    """ISO 32000-1 Annex D.2, PDFDocEncoding column: code -> Unicode scalar, printable part."""
    t: Dict[int, int] = {}
    for c in range(0x20, 0x7F):
        t[c] = c
    for c, u in zip(range(0x18, 0x20), (0x02D8, 0x02C7, 0x02C6, 0x02D9, 0x02DD, 0x02DB, 0x02DA, 0x02DC)):
        t[c] = u
    hi = (
        0x2022, 0x2020, 0x2021, 0x2026, 0x2014, 0x2013, 0x0192, 0x2044, 0x2039, 0x203A, 0x2212, 0x2030, 0x201E, 0x201C,
        0x201D, 0x2018, 0x2019, 0x201A, 0x2122, 0xFB01, 0xFB02, 0x0141, 0x0152, 0x0160, 0x0178, 0x017D, 0x0131, 0x0142,
        0x0153, 0x0161, 0x017E,
    )
    for c, u in zip(range(0x80, 0x9F), hi):
        t[c] = u
    t[0xA0] = 0x20AC
    for c in range(0xA1, 0x100):
        if c != 0xAD:
            t[c] = c
    return t


# ------------------------------------------------------------------- doc runner
def glyphs(pdf: bytes, caching: bool = True) -> List[List[Tuple]]:
    """pages -> [(text, adv, matrix, bbox, fontname)] in paint order, no layout analysis."""
    from pdfminer.converter import PDFPageAggregator
    from pdfminer.layout import LTChar
    from pdfminer.pdfdocument import PDFDocument
    from pdfminer.pdfinterp import PDFPageInterpreter, PDFResourceManager
    from pdfminer.pdfpage import PDFPage
    from pdfminer.pdfparser import PDFParser

    doc = PDFDocument(PDFParser(io.BytesIO(pdf)))
    rm = PDFResourceManager(caching=caching)
    dev = PDFPageAggregator(rm, laparams=None)
    ip = PDFPageInterpreter(rm, dev)
    pages = []
    for page in PDFPage.create_pages(doc):
        ip.process_page(page)
        lt = dev.get_result()
        out = []
        for it in lt:
            if isinstance(it, LTChar):
                out.append((it.get_text(), it.adv, tuple(it.matrix), tuple(it.bbox), it.fontname))
        pages.append(out)
    return pages


def close(a: float, b, tol: float = 1e-9) -> bool:
    b = float(b)
    return abs(a - b) <= tol * max(1.0, abs(a), abs(b))
