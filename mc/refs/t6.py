"""ITU-T T.6 (Group 4) reference encoder as a nondeterministic transition system,
and a spec-literal reference decoder used only to validate the encoder.

Pixels: 0 = white, 1 = black.  Code tables are frozen in data/ccitt_tables.json.
"""
from __future__ import annotations

import json
import os
from typing import Iterator, List, Sequence, Tuple

_T = json.load(open(os.path.join(os.path.dirname(__file__), "..", "..", "data", "ccitt_tables.json")))
WHITE = {int(k): v for k, v in _T["WHITE"].items()}
BLACK = {int(k): v for k, v in _T["BLACK"].items()}
MODE_V = {0: "1", 1: "011", -1: "010", 2: "000011", -2: "000010", 3: "0000011", -3: "0000010"}
MODE_H = "001"
MODE_P = "0001"
EOFB = "000000000001" * 2
assert all(_T["MODE"][str(k)] == v for k, v in MODE_V.items()) and _T["MODE"]["h"] == MODE_H and _T["MODE"]["p"] == MODE_P
assert _T["MODE"]["e"] == EOFB


def run_code(n: int, black: int) -> str:
    """Canonical T.4 run-length code: (2560 make-ups)* [make-up] terminating."""
    tab = BLACK if black else WHITE
    out = []
    while n >= 2560:
        out.append(tab[2560])
        n -= 2560
    if n >= 64:
        out.append(tab[n // 64 * 64])
        n %= 64
    out.append(tab[n])
    return "".join(out)


def elements(ref: Sequence[int], cur: Sequence[int], a0: int, colour: int) -> Tuple[int, int, int, int]:
    """(a1, a2, b1, b2) per T.6 2.2.1; a0 = -1 is the imaginary white start."""
    w = len(cur)
    a1 = a0 + 1
    while a1 < w and cur[a1] == colour:
        a1 += 1
    a2 = a1 + 1 if a1 < w else w
    while a2 < w and cur[a2] != colour:
        a2 += 1
    a2 = min(a2, w)
    b1 = a0 + 1
    while b1 < w:
        prev = ref[b1 - 1] if b1 > 0 else 0
        if ref[b1] != colour and prev == colour:
            break
        b1 += 1
    b2 = b1 + 1 if b1 < w else w
    while b2 < w and ref[b2] == ref[b2 - 1]:
        b2 += 1
    b2 = min(b2, w)
    return a1, a2, b1, b2


def codings(ref: Sequence[int], cur: Sequence[int], a0: int, colour: int) -> List[Tuple[str, str, int, int]]:
    """Admissible codings at (a0, colour): list of (label, bits, new_a0, new_colour).
    Order: the T.6 flow-chart choice first (default), then the other admissible ones."""
    w = len(cur)
    a1, a2, b1, b2 = elements(ref, cur, a0, colour)
    opts = []
    if b2 < a1:
        opts.append(("P", MODE_P, b2, colour))
    if abs(a1 - b1) <= 3:
        opts.append(("V%+d" % (a1 - b1), MODE_V[a1 - b1], a1, 1 - colour))
    start = max(a0, 0)
    h = ("H%d,%d" % (a1 - start, a2 - a1), MODE_H + run_code(a1 - start, colour) + run_code(a2 - a1, 1 - colour), a2, colour)
    opts.append(h)
    return opts


def line_paths(ref: Sequence[int], cur: Sequence[int], mode: str = "all") -> Iterator[Tuple[List[str], str]]:
    """All admissible encodings of one line (mode='all'), only the flow-chart one ('std'),
    or horizontal-only ('h')."""
    w = len(cur)

    def rec(a0, colour, labels, bits):
        if a0 >= w:
            yield list(labels), "".join(bits)
            return
        opts = codings(ref, cur, a0, colour)
        if mode == "std":
            opts = opts[:1]
        elif mode == "h":
            opts = opts[-1:]
        for lab, b, na0, ncol in opts:
            labels.append(lab)
            bits.append(b)
            yield from rec(na0, ncol, labels, bits)
            labels.pop()
            bits.pop()

    yield from rec(-1, 0, [], [])


def pack(bitstr: str) -> bytes:
    bitstr += "0" * (-len(bitstr) % 8)
    return bytes(int(bitstr[i : i + 8], 2) for i in range(0, len(bitstr), 8))


def assemble(line_bits: Sequence[str], bytealign: bool, eofb: bool) -> bytes:
    s = ""
    for lb in line_bits:
        s += lb
        if bytealign:
            s += "0" * (-len(s) % 8)
    if eofb:
        s += EOFB
    return pack(s)


def packed_rows(rows: Sequence[Sequence[int]], blackis1: bool) -> bytes:
    out = bytearray()
    for r in rows:
        bits = "".join(str(p if blackis1 else 1 - p) for p in r)
        out += pack(bits)
    return bytes(out)


def row_mask(width: int, nrows: int) -> bytes:
    full, rem = divmod(width, 8)
    m = bytes([255] * full + ([(0xFF << (8 - rem)) & 0xFF] if rem else []))
    return m * nrows


# ------------------------------------------------------- spec-literal decoder
def _invert(tab):
    return {v: k for k, v in tab.items()}


_WI, _BI = _invert(WHITE), _invert(BLACK)
_MI = {v: k for k, v in MODE_V.items()}
_MI[MODE_H] = "h"
_MI[MODE_P] = "p"


def ref_decode(data: bytes, width: int, nrows: int, bytealign: bool) -> List[List[int]]:
    bits = "".join(format(b, "08b") for b in data)
    pos = 0

    def read(table):
        nonlocal pos
        for n in range(1, 30):
            c = bits[pos : pos + n]
            if c in table:
                pos += n
                return table[c]
        raise ValueError("bad code at %d" % pos)

    def read_run(colour):
        t = _BI if colour else _WI
        total = 0
        while True:
            n = read(t)
            total += n
            if n < 64:
                return total

    rows = []
    ref = [0] * width
    for _ in range(nrows):
        cur = [0] * width
        a0, colour = -1, 0
        while a0 < width:
            m = read(_MI)
            # b1/b2 on the reference line
            b1 = a0 + 1
            while b1 < width:
                prev = ref[b1 - 1] if b1 > 0 else 0
                if ref[b1] != colour and prev == colour:
                    break
                b1 += 1
            b2 = b1 + 1 if b1 < width else width
            while b2 < width and ref[b2] == ref[b2 - 1]:
                b2 += 1
            b2 = min(b2, width)
            s = max(a0, 0)
            if m == "p":
                for x in range(s, b2):
                    cur[x] = colour
                a0 = b2
            elif m == "h":
                r1 = read_run(colour)
                r2 = read_run(1 - colour)
                for x in range(s, s + r1):
                    cur[x] = colour
                for x in range(s + r1, s + r1 + r2):
                    cur[x] = 1 - colour
                a0 = s + r1 + r2
            else:
                a1 = b1 + m
                for x in range(s, a1):
                    cur[x] = colour
                a0 = a1
                colour = 1 - colour
        rows.append(cur)
        ref = cur
        if bytealign:
            pos += -pos % 8
    return rows
