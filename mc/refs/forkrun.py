"""Run a function in a forked child and get its (picklable) result back.

Used by checks that must start a piece of work from the parent's process state
(e.g. "pdfminer imported, nothing extracted yet") so that nothing done for one
case can leak into the next one.  Works inside daemonic pool workers (plain
os.fork, no multiprocessing).
"""
from __future__ import annotations

import os
import pickle
import select
import traceback


def _child(fn, item, w):
    try:
        try:
            res = ("ok", fn(item))
        except BaseException as e:  # noqa
            res = ("err", f"{type(e).__name__}: {e}\n{traceback.format_exc()}")
        mv = memoryview(pickle.dumps(res, protocol=4))
        while mv:
            n = os.write(w, mv[: 1 << 16])
            mv = mv[n:]
    finally:
        os._exit(0)


def fork_map(fn, items, par: int = 1):
    """fn(item) in one forked child per item, at most ``par`` at a time; results in input order."""
    items = list(items)
    results = [None] * len(items)
    running = {}
    nxt = 0
    while nxt < len(items) or running:
        while nxt < len(items) and len(running) < par:
            r, w = os.pipe()
            pid = os.fork()
            if pid == 0:
                os.close(r)
                _child(fn, items[nxt], w)
            os.close(w)
            running[r] = (nxt, pid, bytearray())
            nxt += 1
        ready, _, _ = select.select(list(running), [], [])
        for fd in ready:
            idx, pid, buf = running[fd]
            chunk = os.read(fd, 1 << 16)
            if chunk:
                buf += chunk
                continue
            os.close(fd)
            os.waitpid(pid, 0)
            del running[fd]
            if not buf:
                raise RuntimeError(f"forked child for item {idx} died without a result")
            st, val = pickle.loads(bytes(buf))
            if st != "ok":
                raise RuntimeError("forked child failed: " + val)
            results[idx] = val
    return results


def fork_call(fn, item):
    return fork_map(fn, [item], 1)[0]
