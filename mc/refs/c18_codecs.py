"""Reference *encoders* for the lossless stream filters used by the C18 image alphabet
(ISO 32000-1 7.4), each paired with a spec-literal reference *decoder* of my own so the
encoder is validated by round trip on every payload before the result is handed to pdfminer.
Nothing here imports pdfminer.
"""
from __future__ import annotations

import base64
import binascii
import zlib
from typing import List, Sequence


# ---------------------------------------------------------------- ASCIIHex (7.4.2)
def ahx_encode(data: bytes) -> bytes:
    out = data.hex().upper().encode() + b">"
    assert binascii.unhexlify(out[:-1]) == data
    return out


# ---------------------------------------------------------------- ASCII85 (7.4.3)
def a85_encode(data: bytes) -> bytes:
    out = bytearray()
    for i in range(0, len(data), 4):
        chunk = data[i : i + 4]
        n = len(chunk)
        v = int.from_bytes(chunk + b"\x00" * (4 - n), "big")
        if n == 4 and v == 0:
            out += b"z"
            continue
        digits = []
        for _ in range(5):
            v, r = divmod(v, 85)
            digits.append(33 + r)
        digits.reverse()
        out += bytes(digits[: n + 1])
    res = bytes(out) + b"~>"
    assert base64.a85decode(b"<~" + res, adobe=True) == data
    return res


# ---------------------------------------------------------------- RunLength (7.4.5)
def rl_encode(data: bytes) -> bytes:
    out = bytearray()
    i = 0
    n = len(data)
    while i < n:
        j = i
        while j + 1 < n and data[j + 1] == data[i] and j - i < 127:
            j += 1
        run = j - i + 1
        if run >= 2:
            out += bytes((257 - run, data[i]))
            i = j + 1
            continue
        # literal stretch up to the next run of >= 2 (or 128 bytes)
        k = i
        while k < n and k - i < 128 and not (k + 1 < n and data[k + 1] == data[k]):
            k += 1
        if k == i:
            k = i + 1
        out += bytes((k - i - 1,)) + data[i:k]
        i = k
    out.append(128)
    res = bytes(out)
    assert rl_decode(res) == data
    return res


def rl_decode(enc: bytes) -> bytes:
    out = bytearray()
    i = 0
    while True:
        length = enc[i]
        i += 1
        if length == 128:
            return bytes(out)
        if length < 128:
            out += enc[i : i + length + 1]
            i += length + 1
        else:
            out += bytes((enc[i],)) * (257 - length)
            i += 1


# ---------------------------------------------------------------- LZW (7.4.4, EarlyChange = 1)
def lzw_encode(data: bytes, early: int = 1) -> bytes:
    """early = the /EarlyChange parameter: 1 (default) grows the code width one code early, 0 as late as possible"""
    codes: List[int] = []
    widths: List[int] = []
    table = {bytes((c,)): c for c in range(256)}
    nxt = 258
    width = 9
    codes.append(256)
    widths.append(width)
    w = b""
    for c in data:
        wc = w + bytes((c,))
        if wc in table:
            w = wc
            continue
        codes.append(table[w])
        widths.append(width)
        table[wc] = nxt
        nxt += 1
        # early change: the width grows one code before the table would need it
        if nxt + early > (1 << width) and width < 12:
            width += 1
        if nxt >= 4094:
            codes.append(256)
            widths.append(width)
            table = {bytes((x,)): x for x in range(256)}
            nxt = 258
            width = 9
        w = bytes((c,))
    if w:
        codes.append(table[w])
        widths.append(width)
        # the decoder adds an entry after this code as well
        nxt += 1
        if nxt + early > (1 << width) and width < 12:
            width += 1
    codes.append(257)
    widths.append(width)
    acc = 0
    nbits = 0
    out = bytearray()
    for code, wd in zip(codes, widths):
        acc = (acc << wd) | code
        nbits += wd
        while nbits >= 8:
            out.append((acc >> (nbits - 8)) & 255)
            nbits -= 8
    if nbits:
        out.append((acc << (8 - nbits)) & 255)
    res = bytes(out)
    assert lzw_decode(res, early) == data, "LZW reference round trip"
    return res


def lzw_decode(enc: bytes, early: int = 1) -> bytes:
    """spec-literal decoder; early = /EarlyChange"""
    bits = "".join(f"{b:08b}" for b in enc)
    pos = 0
    width = 9
    table: List[bytes] = []
    prev = None
    out = bytearray()

    def reset():
        nonlocal table, width
        table = [bytes((c,)) for c in range(256)] + [b"", b""]
        width = 9

    reset()
    while pos + width <= len(bits):
        code = int(bits[pos : pos + width], 2)
        pos += width
        if code == 256:
            reset()
            prev = None
            continue
        if code == 257:
            break
        if prev is None:
            entry = table[code]
        elif code < len(table):
            entry = table[code]
            table.append(prev + entry[:1])
        else:
            assert code == len(table)
            entry = prev + prev[:1]
            table.append(entry)
        out += entry
        prev = entry
        # EarlyChange 1: switch as soon as the table holds 2^width - 1 entries; 0: when it holds 2^width
        if len(table) >= (1 << width) - early and width < 12:
            width += 1
    return bytes(out)


# ---------------------------------------------------------------- Flate (7.4.4) + PNG predictors (7.4.4.4)
def flate_encode(data: bytes) -> bytes:
    res = zlib.compress(data, 9)
    assert zlib.decompress(res) == data
    return res


def _paeth(a: int, b: int, c: int) -> int:
    p = a + b - c
    pa, pb, pc = abs(p - a), abs(p - b), abs(p - c)
    if pa <= pb and pa <= pc:
        return a
    if pb <= pc:
        return b
    return c


def png_predict(data: bytes, rowbytes: int, bpp: int, row_filters: Sequence[int]) -> bytes:
    """Apply PNG row filters (tag byte + filtered row); row_filters is cycled over the rows.
    bpp = bytes per complete pixel, rounded up to 1."""
    assert len(data) % rowbytes == 0
    out = bytearray()
    prior = bytes(rowbytes)
    for r in range(len(data) // rowbytes):
        row = data[r * rowbytes : (r + 1) * rowbytes]
        ft = row_filters[r % len(row_filters)]
        enc = bytearray()
        for x in range(rowbytes):
            a = row[x - bpp] if x >= bpp else 0
            b = prior[x]
            c = prior[x - bpp] if x >= bpp else 0
            pred = (0, a, b, (a + b) // 2, _paeth(a, b, c))[ft]
            enc.append((row[x] - pred) & 255)
        out.append(ft)
        out += enc
        prior = row
    res = bytes(out)
    assert png_unpredict(res, rowbytes, bpp) == data
    return res


def png_unpredict(enc: bytes, rowbytes: int, bpp: int) -> bytes:
    out = bytearray()
    prior = bytes(rowbytes)
    for r in range(len(enc) // (rowbytes + 1)):
        ft = enc[r * (rowbytes + 1)]
        line = enc[r * (rowbytes + 1) + 1 : (r + 1) * (rowbytes + 1)]
        row = bytearray()
        for x in range(rowbytes):
            a = row[x - bpp] if x >= bpp else 0
            b = prior[x]
            c = prior[x - bpp] if x >= bpp else 0
            pred = (0, a, b, (a + b) // 2, _paeth(a, b, c))[ft]
            row.append((line[x] + pred) & 255)
        out += row
        prior = bytes(row)
    return bytes(out)


def tiff_predict(data: bytes, rowbytes: int, bpp: int) -> bytes:
    """TIFF 6.0 section 14 horizontal differencing (Predictor 2), 8-bit components: every sample minus the sample of
    the same component in the pixel to its left"""
    assert len(data) % rowbytes == 0
    out = bytearray()
    for r in range(len(data) // rowbytes):
        row = data[r * rowbytes : (r + 1) * rowbytes]
        out += bytes((row[x] - (row[x - bpp] if x >= bpp else 0)) & 255 for x in range(rowbytes))
    res = bytes(out)
    assert tiff_unpredict(res, rowbytes, bpp) == data
    return res


def tiff_unpredict(enc: bytes, rowbytes: int, bpp: int) -> bytes:
    out = bytearray()
    for r in range(len(enc) // rowbytes):
        row = bytearray(enc[r * rowbytes : (r + 1) * rowbytes])
        for x in range(bpp, rowbytes):
            row[x] = (row[x] + row[x - bpp]) & 255
        out += row
    return bytes(out)


def selfcheck() -> None:
    samples = [b"", b"\x00", b"\x00\x00\x00\x00", b"abc", bytes(range(256)), b"\xff" * 300, b"ab" * 700, bytes((i * 7) & 255 for i in range(5000))]
    for s in samples:
        ahx_encode(s)
        a85_encode(s)
        rl_encode(s)
        lzw_encode(s)
        flate_encode(s)
    # known vectors: ISO 32000-1 7.4.4.2 example -- 45 45 45 45 45 65 45 45 45 66 -> 80 0B 60 50 22 0C 0C 85 01
    assert lzw_encode(bytes([45, 45, 45, 45, 45, 65, 45, 45, 45, 66])) == bytes([0x80, 0x0B, 0x60, 0x50, 0x22, 0x0C, 0x0C, 0x85, 0x01])
    big = bytes((i * i * 31 + i * 7) & 255 for i in range(3000))
    assert lzw_encode(big, 0) != lzw_encode(big, 1) and lzw_decode(lzw_encode(big, 0), 0) == big
    assert tiff_predict(bytes([10, 20, 30, 13, 19, 33]), 6, 3) == bytes([10, 20, 30, 3, 255, 3])
    assert a85_encode(b"\x00\x00\x00\x00") == b"z~>"
    assert rl_decode(bytes([2, 1, 2, 3, 254, 9, 128])) == bytes([1, 2, 3, 9, 9, 9])
    for ft in range(5):
        png_predict(bytes(range(24)), 6, 3, [ft])
        png_predict(bytes(range(24)), 8, 1, [ft])
